package c04

import (
	"bytes"
	"compress/gzip"
	"encoding/binary"
	"fmt"
	"io"

	"github.com/containerd/stargz-snapshotter/estargz"
	"github.com/containerd/stargz-snapshotter/estargz/externaltoc"
	"github.com/containerd/stargz-snapshotter/estargz/zstdchunked"
	"verif/harness/hx"
)

func decompressor(name string) estargz.Decompressor {
	switch name {
	case "gzip":
		return new(estargz.GzipDecompressor)
	case "legacy":
		return new(estargz.LegacyGzipDecompressor)
	case "zstd":
		return new(zstdchunked.Decompressor)
	case "ext":
		return externaltoc.NewGzipDecompressor(provideTOC)
	}
	panic("bad decompressor " + name)
}

// provideTOC: the external TOC offered by the "registry": a well-formed empty TOC.
func provideTOC() ([]byte, error) {
	var buf bytes.Buffer
	if _, err := estargz.NewGzipCompressor().WriteTOCAndFooter(&buf, 0, &estargz.JTOC{Version: 1}, nil); err != nil {
		return nil, err
	}
	b := buf.Bytes()
	return b[:len(b)-estargz.FooterSize], nil
}

func execFooter(c Case) Obs {
	d := decompressor(c.Dec)
	a, b, s, err := d.ParseFooter(c.P)
	if err != nil {
		return Obs{Class: "error", Msg: err.Error()}
	}
	return Obs{Class: "ok", Vals: []int64{a, b, s}}
}

func execOpen(c Case) Obs {
	sr := io.NewSectionReader(bytes.NewReader(c.Blob), 0, int64(len(c.Blob)))
	var opts []estargz.OpenOption
	if c.Ext {
		opts = append(opts, estargz.WithDecompressors(decompressor("zstd"), decompressor("ext")))
	}
	if c.TocOff != 0 {
		opts = append(opts, estargz.WithTOCOffset(c.TocOff))
	}
	r, err := estargz.Open(sr, opts...)
	if err != nil {
		return Obs{Class: "error", Msg: err.Error()}
	}
	// touch the reader
	if _, ok := r.Lookup(""); !ok {
		return Obs{Class: "ok", Msg: "no root"}
	}
	return Obs{Class: "ok"}
}

// gzOracle: what compress/gzip makes of the bytes (header decode only): error, or the Extra field.
// This is the oracle argument of the footer models (the gzip header decoder itself is not modelled).
func gzOracle(p []byte) string {
	zr, err := gzip.NewReader(bytes.NewReader(p))
	if err != nil {
		return "GzErr"
	}
	defer zr.Close()
	return "(GzExtra " + coqHex(zr.Extra) + ")"
}

// coqHex prints a byte string compactly: (hx "1f8b..") is decoded by Model/Footer.v (parsing long numeral lists is what
// dominates the model evaluation time).
func coqHex(b []byte) string { return fmt.Sprintf("(hx \"%x\"%%string)", b) }

func tail(b []byte, n int) []byte {
	if len(b) < n {
		return b
	}
	return b[len(b)-n:]
}

func coqObs(o Obs) string {
	switch o.Class {
	case "ok":
		return "(OOk " + hx.CoqZList(o.Vals) + ")"
	case "error":
		return "OErr"
	case "panic":
		return "OPanic"
	}
	return "OHang" // stack overflow, timeout, oom, crash: never predicted by the repaired model
}

var decCoq = map[string]string{"gzip": "DGzip", "legacy": "DLegacy", "zstd": "DZstd", "ext": "DExt"}

func coqFooter(c Case, o Obs) string {
	return fmt.Sprintf("CFooter %s %s %s %s", decCoq[c.Dec], coqHex(c.P), gzOracle(c.P), coqObs(o))
}

func coqOpen(c Case, o Obs) string {
	b := c.Blob
	return fmt.Sprintf("COpen %s %s %s %s %s %s %s %s", hx.CoqZ(int64(len(b))), hx.CoqBool(c.Ext), hx.CoqZ(c.TocOff),
		coqHex(tail(b, 51)), gzOracle(tail(b, 51)), gzOracle(tail(b, 47)), gzOracle(tail(b, 46)), coqObs(o))
}

// ---- generators ----

func gzFooter(extra []byte) []byte { return estargz.CreateGzipFooter(extra) }

func sgExtra(slen int, sub []byte) []byte {
	h := []byte{'S', 'G', 0, 0}
	binary.LittleEndian.PutUint16(h[2:4], uint16(slen))
	return append(h, sub...)
}

func validFooter(dec string, off int64) []byte {
	switch dec {
	case "gzip":
		return gzFooter(sgExtra(22, []byte(fmt.Sprintf("%016xSTARGZ", off))))
	case "legacy":
		return gzFooter([]byte(fmt.Sprintf("%016xSTARGZ", off)))
	case "ext":
		return gzFooter(sgExtra(17, []byte("STARGZEXTERNALTOC")))
	}
	p := make([]byte, 40)
	binary.LittleEndian.PutUint64(p[0:8], uint64(off))
	binary.LittleEndian.PutUint64(p[8:16], 100)
	copy(p[32:40], []byte{0x47, 0x6e, 0x55, 0x6c, 0x49, 0x6e, 0x55, 0x78})
	return p
}

var decs = []string{"gzip", "legacy", "zstd", "ext"}
var footSize = map[string]int{"gzip": 51, "legacy": 47, "zstd": 40, "ext": 46}

// fit pads/truncates a gzip-member footer so that the total is n bytes (the length check is passed and the
// parser sees a hostile header of exactly the footer size).
func fit(b []byte, n int) []byte {
	if len(b) >= n {
		return b[:n]
	}
	return append(b, make([]byte, n-len(b))...)
}

func hexField(r *hx.Rng) []byte {
	s := []byte(fmt.Sprintf("%016x", r.U64()>>uint(r.Intn(64))))
	switch r.Pick(6, 2, 2, 2, 1, 1, 1) {
	case 1:
		s[0] = '-'
	case 2:
		s[0] = '+'
	case 3:
		s[r.Intn(16)] = "gG_ xZ\x00\xff"[r.Intn(8)]
	case 4:
		s = []byte("7fffffffffffffff")
	case 5:
		s = []byte("ffffffffffffffff")
	case 6:
		s = []byte("-8000000000000000")[:16]
	}
	if r.Chance(1, 4) {
		for i := range s {
			if r.Bool() && s[i] >= 'a' && s[i] <= 'f' {
				s[i] -= 32
			}
		}
	}
	return s
}

func genFooter(r *hx.Rng) Case {
	dec := decs[r.Intn(4)]
	n := footSize[dec]
	var p []byte
	switch r.Pick(3, 4, 5, 3, 2, 2) {
	case 0: // valid
		p = validFooter(dec, int64(r.U64()>>uint(r.Intn(64)))&0x7fffffffffffffff)
	case 1: // any length around the footer size, valid prefix or random
		p = validFooter(dec, int64(r.Intn(1000)))
		m := r.Range(0, n+12)
		if r.Bool() {
			p = fit(p, m)
		} else {
			p = r.Bytes(m)
		}
	case 2: // crafted extra field of arbitrary length / claimed subfield length, padded to the exact footer size
		var extra []byte
		switch r.Pick(3, 3, 2, 2) {
		case 0:
			extra = sgExtra([]int{22, 17, 0, 65535, r.Intn(40)}[r.Intn(5)], r.Bytes(r.Intn(30)))
		case 1:
			sub := append(hexField(r), []byte("STARGZ")...)
			if r.Chance(1, 3) {
				sub = sub[:r.Intn(len(sub)+1)]
			}
			if dec == "legacy" && r.Chance(2, 3) {
				extra = sub
			} else {
				extra = sgExtra(22, sub)
			}
		case 2:
			extra = r.Bytes(r.Intn(8))
		case 3:
			sub := []byte("STARGZEXTERNALTOC")
			extra = sgExtra(17, sub[:r.Range(0, len(sub))])
		}
		p = fit(gzFooter(extra), n)
	case 3: // gzip header without FEXTRA / other flag bits / wrong magic, exact size
		p = fit(gzFooter(sgExtra(22, []byte(fmt.Sprintf("%016xSTARGZ", r.Intn(100))))), n)
		switch r.Intn(4) {
		case 0:
			p[3] = 0
		case 1:
			p[3] = byte(r.Intn(32))
		case 2:
			p[r.Intn(3)] ^= byte(1 << uint(r.Intn(8)))
		case 3:
			p = fit(append([]byte{0x1f, 0x8b, 8, 0, 0, 0, 0, 0, 0, 255}, r.Bytes(n)...), n)
		}
	case 4: // byte flips of a valid footer
		p = validFooter(dec, int64(r.Intn(1<<20)))
		for k := r.Range(1, 3); k > 0; k-- {
			p[r.Intn(len(p))] ^= byte(1 << uint(r.Intn(8)))
		}
	case 5: // zstd:chunked numbers at the int64 boundary
		p = validFooter("zstd", 0)
		binary.LittleEndian.PutUint64(p[0:8], []uint64{0, 7, 8, 1 << 63, ^uint64(0), 1<<63 - 1, r.U64()}[r.Intn(7)])
		binary.LittleEndian.PutUint64(p[8:16], []uint64{0, 1 << 63, ^uint64(0), 1 << 62, r.U64()}[r.Intn(5)])
		p = fit(p, n)
		if dec != "zstd" && r.Bool() {
			dec = "zstd"
		}
	}
	return Case{Kind: "footer", Dec: dec, P: p}
}

// a small well-formed eStargz blob (TOC + footer) whose footer is then replaced
func tinyBlob(entries []*estargz.TOCEntry) []byte {
	var buf bytes.Buffer
	if _, err := estargz.NewGzipCompressor().WriteTOCAndFooter(&buf, 0, &estargz.JTOC{Version: 1, Entries: entries}, nil); err != nil {
		panic(err)
	}
	return buf.Bytes()
}

func genOpen(r *hx.Rng) Case {
	c := Case{Kind: "open", Ext: r.Chance(2, 3)}
	var body []byte
	switch r.Pick(3, 3, 2) {
	case 0:
		body = r.Bytes(r.Intn(70))
	case 1:
		b := tinyBlob(nil)
		body = b[:len(b)-estargz.FooterSize]
	case 2:
	}
	f := genFooter(r.Fork())
	if r.Chance(1, 2) {
		// toc offset relative to the real blob: inside, at the end, beyond, negative
		off := []int64{0, int64(len(body)), int64(len(body)) + 1, int64(len(body)) - 1, int64(len(body)) + 60, 1 << 62, -1, 1}[r.Intn(8)]
		switch f.Dec {
		case "gzip", "legacy":
			s := fmt.Sprintf("%016x", uint64(off))
			if off < 0 {
				s = fmt.Sprintf("-%015x", uint64(-off))
			}
			if f.Dec == "gzip" {
				f.P = gzFooter(sgExtra(22, []byte(s+"STARGZ")))
			} else {
				f.P = gzFooter([]byte(s + "STARGZ"))
			}
		case "zstd":
			f.P = validFooter("zstd", off)
			binary.LittleEndian.PutUint64(f.P[8:16], []uint64{0, 1, uint64(len(body)), 1 << 40, 1 << 62, 1 << 63, ^uint64(0)}[r.Intn(7)])
		}
	}
	c.Blob = append(body, f.P...)
	if r.Chance(1, 6) {
		c.Blob = c.Blob[r.Intn(len(c.Blob)+1):]
	}
	if r.Chance(1, 5) {
		c.TocOff = []int64{1, int64(len(c.Blob)), int64(len(c.Blob)) + 1, int64(len(c.Blob)) - 10, -5, 60}[r.Intn(6)]
	}
	return c
}

func footerCorpus() []Case {
	cs := []Case{}
	for _, d := range decs {
		cs = append(cs, Case{Kind: "footer", Dec: d, P: validFooter(d, 1234)})
		cs = append(cs, Case{Kind: "footer", Dec: d, P: nil})
		cs = append(cs, Case{Kind: "footer", Dec: d, P: validFooter(d, 1234)[:footSize[d]-1]})
	}
	// F1: claimed subfield length 22, real subfield empty
	cs = append(cs, Case{Kind: "footer", Dec: "gzip", P: fit(gzFooter(sgExtra(22, nil)), 51)})
	// F3: gzip header without FEXTRA handed to the external-TOC parser
	nox := fit(append([]byte{0x1f, 0x8b, 8, 0, 0, 0, 0, 0, 0, 255}, 1, 0, 0, 0xff, 0xff), 46)
	cs = append(cs, Case{Kind: "footer", Dec: "ext", P: nox})
	// F2: short input to the zstd:chunked parser
	cs = append(cs, Case{Kind: "footer", Dec: "zstd", P: make([]byte, 39)})
	// negative TOC offset in a gzip footer: TOC "is external" for a decompressor that cannot fetch one
	neg := gzFooter(sgExtra(22, []byte("-000000000000001STARGZ")))
	cs = append(cs, Case{Kind: "footer", Dec: "gzip", P: neg})
	cs = append(cs, Case{Kind: "open", Blob: append(make([]byte, 9), neg...)})
	// TOC offset beyond the blob: negative TOC size
	cs = append(cs, Case{Kind: "open", Blob: append(make([]byte, 9), validFooter("gzip", 1<<40)...)})
	cs = append(cs, Case{Kind: "open", Blob: append(make([]byte, 9), validFooter("legacy", 61)...)})
	// F1 / F3 / F2 through Open
	cs = append(cs, Case{Kind: "open", Blob: append(make([]byte, 9), fit(gzFooter(sgExtra(22, nil)), 51)...)})
	cs = append(cs, Case{Kind: "open", Ext: true, Blob: append(make([]byte, 20), nox...)})
	cs = append(cs, Case{Kind: "open", Ext: true, Blob: make([]byte, 10)})
	// zstd:chunked footer announcing a 2^62-byte TOC
	z := validFooter("zstd", 8)
	binary.LittleEndian.PutUint64(z[8:16], 1<<62)
	cs = append(cs, Case{Kind: "open", Ext: true, Blob: append(make([]byte, 30), z...)})
	// well-formed blobs
	cs = append(cs, Case{Kind: "open", Blob: tinyBlob(nil)})
	cs = append(cs, Case{Kind: "open", Ext: true, Blob: validFooter("ext", 0)})
	return cs
}

// ---- deterministic sweep (every run): structured extra fields / frame footers of EVERY length ----
//
// For each gzip-based footer variant: extra-field bodies of every length 0..40 that end with the magic (hex or non-hex
// filler in front), start with the magic, raw or wrapped in an SI1/SI2/LEN subfield header whose LEN is the expected
// constant / the real length / larger / smaller / whose SI bytes are wrong; each wrapped in an otherwise valid gzip
// member padded or cut to exactly the footer size, handed to ParseFooter of EVERY gzip-based variant's own size class
// and (a subset) to estargz.Open at the end of a blob. For zstd:chunked: every length 24..56 with the magic at the
// right place / elsewhere / absent, and boundary frame numbers; through Open also with a TOC-offset hint that makes
// the fetched region shorter than the footer.

var magics = map[string]string{"gzip": "STARGZ", "legacy": "STARGZ", "ext": "STARGZEXTERNALTOC"}

func fillTo(n int, filler byte) []byte {
	if n < 0 {
		n = 0
	}
	return bytes.Repeat([]byte{filler}, n)
}

// bodies of total length l built around the magic
func bodies(l int, magic string) [][]byte {
	m := []byte(magic)
	var out [][]byte
	if l >= len(m) {
		out = append(out,
			append(fillTo(l-len(m), '0'), m...),                      // hex digits of any length + magic (ends with magic)
			append(fillTo(l-len(m), 'z'), m...),                      // ends with magic, filler not hex
			append(append([]byte{}, m...), fillTo(l-len(m), '0')...), // starts with magic
		)
		if l == len(m)+16 {
			out = append(out, append(fillTo(16, 'f'), m...), append([]byte("7fffffffffffffff"), m...), append([]byte("-000000000000001"), m...))
		}
	} else {
		out = append(out, m[:l], m[len(m)-l:]) // proper prefix / suffix of the magic
	}
	return out
}

func sgWrap(si1, si2 byte, slen int, body []byte) []byte {
	h := []byte{si1, si2, 0, 0}
	binary.LittleEndian.PutUint16(h[2:4], uint16(slen))
	return append(h, body...)
}

func footerSweep() []Case {
	var cs []Case
	add := func(dec string, p []byte, open bool) {
		cs = append(cs, Case{Kind: "footer", Dec: dec, P: p})
		if open {
			cs = append(cs, Case{Kind: "open", Ext: dec == "ext" || dec == "zstd", Blob: append(fillTo(9, 'x'), p...)})
		}
	}
	for _, dec := range []string{"gzip", "legacy", "ext"} {
		n := footSize[dec]
		magic := magics[dec]
		want := 22
		if dec == "ext" {
			want = 17
		}
		for l := 0; l <= 40; l++ {
			for bi, body := range bodies(l, magic) {
				// raw extra field (the legacy layout), for every variant
				add(dec, fit(gzFooter(body), n), bi == 0 && dec == "legacy" || bi > 2)
				// wrapped in a subfield header: LEN = expected constant, real length, larger, smaller
				add(dec, fit(gzFooter(sgWrap('S', 'G', want, body)), n), bi == 0 && dec != "legacy" || bi > 2)
				if bi == 0 {
					add(dec, fit(gzFooter(sgWrap('S', 'G', l, body)), n), false)
					add(dec, fit(gzFooter(sgWrap('S', 'G', l+3, body)), n), false)
					if l >= 2 {
						add(dec, fit(gzFooter(sgWrap('S', 'G', l-2, body)), n), false)
					}
				}
			}
		}
		// right total length, inconsistent inner fields
		good := append(fillTo(16, '0'), []byte("STARGZ")...)
		if dec == "ext" {
			good = []byte(magic)
		}
		for _, e := range [][]byte{
			sgWrap('G', 'S', want, good), sgWrap('S', 'g', want, good), sgWrap(0, 0, want, good),
			sgWrap('S', 'G', 0, good), sgWrap('S', 'G', 65535, good), sgWrap('S', 'G', want+1, good), sgWrap('S', 'G', want-1, good),
			sgWrap('S', 'G', want<<8, good), // LEN in the wrong byte order
			sgWrap('S', 'G', want, append(append([]byte{}, good[:len(good)-1]...), 'z')),
			append(sgWrap('S', 'G', want, good[1:]), 0),                                // same total length, subfield shifted by one
			append(sgWrap('S', 'G', want, good), sgWrap('X', 'Y', 2, []byte("ab"))...), // a second subfield after it
			append(sgWrap('X', 'Y', 2, []byte("ab")), sgWrap('S', 'G', want, good)...), // a second subfield before it
		} {
			add(dec, fit(gzFooter(e), n), true)
		}
	}
	// zstd:chunked skippable-frame footer
	zmagic := []byte{0x47, 0x6e, 0x55, 0x6c, 0x49, 0x6e, 0x55, 0x78}
	for l := 24; l <= 56; l++ {
		for v := 0; v < 4; v++ {
			p := make([]byte, l)
			binary.LittleEndian.PutUint64(p[0:8], []uint64{8, 100, 1 << 63, 0}[v])
			binary.LittleEndian.PutUint64(p[8:16], []uint64{50, 0, ^uint64(0), 1 << 40}[v])
			switch v {
			case 0, 1: // magic where a 40-byte footer has it
				if l >= 40 {
					copy(p[32:40], zmagic)
				} else if l > 32 {
					copy(p[32:], zmagic) // cut magic
				}
			case 2: // magic at the very end of the input
				copy(p[l-8:], zmagic)
			case 3: // no magic
			}
			add("zstd", p, v != 1)
			if l < 40 && v == 0 {
				// a TOC-offset hint that makes the fetched region shorter than the footer
				blob := append(fillTo(30, 'x'), p...)
				cs = append(cs, Case{Kind: "open", Ext: true, Blob: blob, TocOff: int64(len(blob) - l)})
			}
		}
	}
	return cs
}
