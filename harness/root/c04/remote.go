package c04

import (
	"archive/tar"
	"bytes"
	"context"
	"fmt"
	"io"
	"net/http"
	"strconv"
	"strings"
	"sync/atomic"

	"github.com/containerd/containerd/v2/core/remotes/docker"
	"github.com/containerd/containerd/v2/pkg/reference"
	"github.com/containerd/stargz-snapshotter/cache"
	"github.com/containerd/stargz-snapshotter/estargz"
	"github.com/containerd/stargz-snapshotter/fs/config"
	"github.com/containerd/stargz-snapshotter/fs/remote"
	"github.com/containerd/stargz-snapshotter/fs/source"
	digest "github.com/opencontainers/go-digest"
	ocispec "github.com/opencontainers/image-spec/specs-go/v1"
	"verif/harness/hx"
)

// ---- "remote": a hostile registry answering with reply SEQUENCES per request kind ----
// Request kinds: "probe" (the URL-refresh / redirect probe, Range: bytes=0-1) and "get" (every other ranged GET of the
// blob). Each kind has a script: status S for the first Times requests of that kind (Times < 0: forever), then correct
// replies. The oracle bounds the NUMBER OF REQUESTS one operation may send: a transport that has seen more than
// remoteMaxReq requests breaks the connection and the case is classified as a dead loop.

type Rep struct {
	Status int    `json:"status"`
	Times  int    `json:"times"`           // < 0: forever
	Loc    string `json:"loc,omitempty"`   // Location header for 3xx
	After  int    `json:"after,omitempty"` // the script starts after this many correct replies of the kind
}

const remoteMaxReq = 200
const remoteSize = 1000

type hostileRegistry struct {
	c      *Case
	n      atomic.Int64
	probes atomic.Int64
	gets   atomic.Int64
}

func remoteByte(i int64) byte { return byte(i*13 + 5) }

func (h *hostileRegistry) RoundTrip(req *http.Request) (*http.Response, error) {
	if n := h.n.Add(1); n > remoteMaxReq {
		return nil, fmt.Errorf("registry gave up after %d requests", n-1)
	}
	rng := req.Header.Get("Range")
	script, k := h.c.Get, int64(0)
	if rng == "bytes=0-1" {
		script, k = h.c.Probe, h.probes.Add(1)
	} else {
		k = h.gets.Add(1)
	}
	if script != nil && k > int64(script.After) && (script.Times < 0 || k <= int64(script.After+script.Times)) {
		hd := http.Header{}
		if script.Loc != "" {
			hd.Set("Location", script.Loc)
		}
		return &http.Response{StatusCode: script.Status, Status: fmt.Sprintf("%d X", script.Status), Header: hd,
			Body: io.NopCloser(bytes.NewReader(nil)), Request: req}, nil
	}
	// a correct single-range reply
	b, e := int64(0), int64(remoteSize-1)
	if strings.HasPrefix(rng, "bytes=") {
		// one range covering everything asked for (a reply the fetcher accepts for a multi-range request)
		b, e = remoteSize, 0
		for _, part := range strings.Split(strings.TrimPrefix(rng, "bytes="), ",") {
			if p := strings.SplitN(strings.TrimSpace(part), "-", 2); len(p) == 2 {
				pb, _ := strconv.ParseInt(p[0], 10, 64)
				pe, _ := strconv.ParseInt(p[1], 10, 64)
				if pb < b {
					b = pb
				}
				if pe > e {
					e = pe
				}
			}
		}
	}
	if e >= remoteSize {
		e = remoteSize - 1
	}
	if b < 0 || b > e {
		return &http.Response{StatusCode: 416, Status: "416 X", Header: http.Header{}, Body: io.NopCloser(bytes.NewReader(nil)), Request: req}, nil
	}
	data := make([]byte, e-b+1)
	for i := range data {
		data[i] = remoteByte(b + int64(i))
	}
	hd := http.Header{}
	hd.Set("Content-Range", fmt.Sprintf("bytes %d-%d/%d", b, e, remoteSize))
	hd.Set("Content-Type", "application/octet-stream")
	return &http.Response{StatusCode: 206, Status: "206 Partial Content", Header: hd, Body: io.NopCloser(bytes.NewReader(data)), Request: req}, nil
}

func execRemote(c Case) Obs {
	reg := &hostileRegistry{c: &c}
	hosts := source.RegistryHosts(func(reference.Spec) ([]docker.RegistryHost, error) {
		return []docker.RegistryHost{{Client: &http.Client{Transport: reg}, Host: "reg.test", Scheme: "https", Path: "/v2",
			Capabilities: docker.HostCapabilityPull}}, nil
	})
	refspec, err := reference.Parse("reg.test/verif/img:latest")
	if err != nil {
		panic(err)
	}
	desc := ocispec.Descriptor{Digest: digest.FromString("c04"), Size: remoteSize}
	resolver := remote.NewResolver(config.BlobConfig{ChunkSize: 100, CheckAlways: true, FetchTimeoutSec: 15, ForceSingleRangeMode: c.Ext}, nil)
	verdict := func(o Obs) Obs {
		if n := reg.n.Load(); n > remoteMaxReq {
			return Obs{Class: "timeout", Msg: fmt.Sprintf("dead loop: more than %d requests sent to the registry in one case (%d probes, %d gets)", remoteMaxReq, reg.probes.Load(), reg.gets.Load())}
		}
		return o
	}
	b, err := resolver.Resolve(context.Background(), hosts, refspec, desc, cache.NewMemoryCache())
	if err != nil {
		return verdict(Obs{Class: "error", Msg: err.Error()})
	}
	defer b.Close()
	p := make([]byte, 150)
	_, err1 := b.ReadAt(p, 200)
	err2 := b.Cache(0, remoteSize)
	err3 := b.Check()
	err4 := b.Refresh(context.Background(), hosts, refspec, desc)
	for _, e := range []error{err1, err2, err3, err4} {
		if e != nil {
			return verdict(Obs{Class: "error", Msg: e.Error()})
		}
	}
	return verdict(Obs{Class: "ok"})
}

var remoteStatuses = []int{403, 401, 404, 416, 429, 500, 503, 400, 301, 302, 307, 200, 204}

// remoteCorpus: every status, for each request kind independently, repeated forever / once / three times then correct;
// from the first request on and after the first correct reply of the kind.
func remoteCorpus() []Case {
	var cs []Case
	for _, st := range remoteStatuses {
		loc := ""
		if st/100 == 3 {
			loc = "https://reg.test/v2/verif/img/blobs/loop"
		}
		for _, times := range []int{-1, 1, 3} {
			for _, after := range []int{0, 1} {
				r := &Rep{Status: st, Times: times, Loc: loc, After: after}
				cs = append(cs, Case{Kind: "remote", Get: r})
				if times != 3 {
					cs = append(cs, Case{Kind: "remote", Probe: r})
				}
			}
		}
		cs = append(cs, Case{Kind: "remote", Get: &Rep{Status: st, Times: -1, Loc: loc}, Probe: &Rep{Status: st, Times: -1, Loc: loc, After: 1}})
		cs = append(cs, Case{Kind: "remote", Ext: true, Get: &Rep{Status: st, Times: -1, Loc: loc, After: 1}})
	}
	return cs
}

func genRemote(r *hx.Rng) Case {
	c := Case{Kind: "remote", Ext: r.Chance(1, 4)}
	mk := func() *Rep {
		st := remoteStatuses[r.Intn(len(remoteStatuses))]
		rep := &Rep{Status: st, Times: []int{-1, 1, 2, 5}[r.Intn(4)], After: r.Intn(3)}
		if st/100 == 3 {
			rep.Loc = []string{"https://reg.test/v2/verif/img/blobs/loop", "", "::bad url", "http://other.test/x"}[r.Intn(4)]
		}
		return rep
	}
	if r.Chance(3, 4) {
		c.Get = mk()
	}
	if r.Chance(1, 2) {
		c.Probe = mk()
	}
	return c
}

// ---- "buildk": estargz.Build of a tar with SEVERAL bad entries spread over the archive, crossed with worker counts ----
// Ops: entries in order; Type "bad" = an entry of an unsupported type (typeflag in Link), Type "reg" = file of Size bytes.

func execBuildK(c Case) Obs {
	var buf bytes.Buffer
	tw := tar.NewWriter(&buf)
	for _, e := range c.Ops {
		if e.Type == "bad" {
			tf := byte('V')
			if e.Link != "" {
				tf = e.Link[0]
			}
			tw.WriteHeader(&tar.Header{Name: e.Name, Typeflag: tf, Mode: 0644, Format: tar.FormatGNU})
			continue
		}
		tw.WriteHeader(&tar.Header{Name: e.Name, Typeflag: tar.TypeReg, Mode: 0644, Size: e.Size})
		tw.Write(make([]byte, e.Size))
	}
	tw.Close()
	sr := io.NewSectionReader(bytes.NewReader(buf.Bytes()), 0, int64(buf.Len()))
	b, err := estargz.Build(sr, estargz.WithParallelism(c.Workers), estargz.WithChunkSize(4096))
	if err != nil {
		return Obs{Class: "error", Msg: err.Error()}
	}
	defer b.Close()
	io.Copy(io.Discard, b)
	return Obs{Class: "ok"}
}

// buildKCorpus: k = 0..4 bad entries, each followed by a file, file sizes equal / growing / shrinking (so that the bad
// entries land in different parts for some worker count), workers 1..4.
func buildKCorpus() []Case {
	var cs []Case
	for k := 0; k <= 4; k++ {
		for layout := 0; layout < 3; layout++ {
			if layout == 2 && k < 2 {
				continue
			}
			var ops []Ent
			for i := 0; i < 4; i++ {
				if i < k {
					ops = append(ops, Ent{Name: fmt.Sprintf("bad%d", i), Type: "bad", Link: "V"})
				}
				sz := int64(3000)
				if layout == 1 {
					sz = int64(1000 * (i + 1))
				} else if layout == 2 {
					sz = int64(1000 * (4 - i))
				}
				ops = append(ops, Ent{Name: fmt.Sprintf("f%d", i), Type: "reg", Size: sz})
			}
			for w := 1; w <= 4; w++ {
				if k == 0 && (layout > 0 || w > 2) {
					continue
				}
				cs = append(cs, Case{Kind: "buildk", Ops: ops, Workers: w})
			}
		}
	}
	return cs
}

func genBuildK(r *hx.Rng) Case {
	c := Case{Kind: "buildk", Workers: r.Range(1, 4)}
	for i, n := 0, r.Range(2, 8); i < n; i++ {
		if r.Chance(1, 2) {
			c.Ops = append(c.Ops, Ent{Name: fmt.Sprintf("bad%d", i), Type: "bad", Link: string("VMSDKLNX\x00Z"[r.Intn(10)])})
		}
		c.Ops = append(c.Ops, Ent{Name: fmt.Sprintf("f%d", i), Type: "reg", Size: int64(r.Range(0, 5000))})
	}
	return c
}
