package c04

import (
	"archive/tar"
	"bytes"
	"compress/gzip"
	"encoding/json"
	"fmt"
	"strings"

	"github.com/containerd/stargz-snapshotter/estargz"
	"verif/harness/hx"
)

// The "json" stream: hostile TOC JSON TEXT (null / missing / wrong-typed members at every level, nil entries, numbers
// as strings, floats, out-of-range), wrapped in a well-formed blob. What encoding/json makes of the text is the oracle
// handed to the model (decode error / null TOC / entry list with null entries); the rest is the tree stream.

func rawBlob(raw []byte) []byte {
	var buf bytes.Buffer
	zw := gzip.NewWriter(&buf)
	tw := tar.NewWriter(zw)
	tw.WriteHeader(&tar.Header{Typeflag: tar.TypeReg, Name: estargz.TOCTarName, Size: int64(len(raw))})
	tw.Write(raw)
	tw.Close()
	zw.Close()
	return append(buf.Bytes(), validFooter("gzip", 0)...)
}

func execJSON(c Case) Obs { return execTreeBlob(rawBlob([]byte(c.Raw)), nil) }

// decodeLikeTheCode: parseTOCEStargz does json.NewDecoder(r).Decode(&toc) with toc = new(JTOC).
func decodeLikeTheCode(raw string) (toc *estargz.JTOC, err error) {
	toc = new(estargz.JTOC)
	err = json.NewDecoder(strings.NewReader(raw)).Decode(&toc)
	return
}

func coqJSONAs(ctor string, c Case, o Obs) string {
	toc, err := decodeLikeTheCode(c.Raw)
	dec := ""
	in := &interner{ids: map[string]int{}}
	switch {
	case err != nil:
		dec = "JErr"
	case toc == nil:
		dec = "JNull"
	default:
		es := make([]string, len(toc.Entries))
		for i, e := range toc.Entries {
			if e == nil {
				es[i] = "None"
				continue
			}
			ty, ok := tyCoq[e.Type]
			if !ok {
				ty = "TOther"
			}
			es[i] = fmt.Sprintf("Some (mkEntry %s %s %s)", in.name(clean(e.Name)), ty, in.name(clean(e.LinkName)))
		}
		dec = "(JToc " + hx.CoqList(es) + ")"
	}
	ls := []string{}
	for _, l := range o.List {
		if l[0] == '0' || l[0] == '1' {
			ls = append(ls, fmt.Sprintf("(%s, %c)", in.name([]string{l[2:]}), l[0]))
		}
	}
	return fmt.Sprintf("%s %s %s %s", ctor, dec, coqObs(o), hx.CoqList(ls))
}

func jsonCorpus(kind string) []Case {
	ent := `{"name":"a/f","type":"reg","size":3,"offset":10,"chunkDigest":"sha256:e3b0c44298fc1c149afbf4c8996fb92427ae41e4649b934ca495991b7852b855"}`
	raws := []string{
		`null`, `{}`, `[]`, `0`, `"x"`, `true`, ``, `{`, `nul`,
		`{"version":1,"entries":null}`, `{"version":1,"entries":[]}`, `{"version":1,"entries":[null]}`,
		`{"version":1,"entries":[null,` + ent + `]}`, `{"version":1,"entries":[` + ent + `,null]}`,
		`{"version":null,"entries":[` + ent + `]}`, `{"version":"1","entries":[` + ent + `]}`, `{"version":1.5}`, `{"version":1e30}`,
		`{"entries":{}}`, `{"entries":"x"}`, `{"entries":[[]]}`, `{"entries":[1]}`, `{"entries":["a"]}`, `{"entries":[{}]}`,
		`{"entries":[{"name":null,"type":null,"size":null,"offset":null,"chunkOffset":null,"chunkSize":null,"linkName":null,"xattrs":null,"mode":null}]}`,
		`{"entries":[{"name":1}]}`, `{"entries":[{"name":"a","type":1}]}`, `{"entries":[{"name":"a","type":"reg","size":"3"}]}`,
		`{"entries":[{"name":"a","type":"reg","size":1.5}]}`, `{"entries":[{"name":"a","type":"reg","size":1e3}]}`,
		`{"entries":[{"name":"a","type":"reg","size":9223372036854775808}]}`, `{"entries":[{"name":"a","type":"reg","size":-9223372036854775809}]}`,
		`{"entries":[{"name":"a","type":"reg","size":9223372036854775807,"chunkSize":1}]}`,
		`{"entries":[{"name":"a","type":"reg","size":9223372036854775807,"chunkSize":9223372036854775806},{"name":"a","type":"chunk","chunkOffset":9223372036854775806}]}`,
		`{"entries":[{"name":"a","type":"reg","size":-9223372036854775808,"chunkSize":-1,"offset":-9223372036854775808,"chunkOffset":-9223372036854775808}]}`,
		`{"entries":[{"name":"a","type":"reg","size":10,"chunkSize":5},{"name":"a","type":"chunk","chunkOffset":5,"chunkSize":5},{"name":"a","type":"chunk","chunkOffset":10}]}`,
		`{"entries":[{"name":"a","type":"reg","xattrs":{"k":null}}]}`, `{"entries":[{"name":"a","type":"reg","xattrs":{"k":1}}]}`, `{"entries":[{"name":"a","type":"reg","xattrs":[]}]}`,
		`{"entries":[{"name":"a","type":"dir","uid":"0"}]}`, `{"entries":[{"name":"a","type":"dir","uid":1e99}]}`, `{"entries":[{"name":"a","type":"dir","modtime":5}]}`,
		`{"entries":[{"name":"a","type":"hardlink","linkName":null}]}`, `{"entries":[{"name":"a","type":"hardlink","linkName":["b"]}]}`,
		`{"entries":[` + ent + `]} trailing garbage`, `{"entries":[` + ent + `]}{"entries":[null]}`,
		`{"Entries":[null],"VERSION":1}`, `{"entries":[` + ent + `],"entries":[null]}`, `{"entries":[` + ent + `],"entries":null}`,
	}
	cs := make([]Case, len(raws))
	for i, r := range raws {
		cs[i] = Case{Kind: kind, Raw: r}
	}
	return cs
}

// genJSON: a TOC produced from the tree generator, then one to three members anywhere in the document replaced by a
// hostile value or removed.
func genJSON(r *hx.Rng, kind string) Case {
	t := genTree(r)
	b, _ := json.Marshal(&estargz.JTOC{Version: 1, Entries: tocEntries(t.Ops)})
	var doc any
	json.Unmarshal(b, &doc)
	hostile := []string{`null`, `"s"`, `1.5`, `1e30`, `-1`, `9223372036854775807`, `9223372036854775808`, `[]`, `{}`, `[null]`, `true`, `""`, `"9223372036854775807"`}
	for k := r.Range(1, 3); k > 0; k-- {
		doc = mutateJSON(r, doc, func() any {
			return json.RawMessage(hostile[r.Intn(len(hostile))])
		}, 0)
	}
	out, err := json.Marshal(doc)
	if err != nil {
		out = []byte(`null`)
	}
	return Case{Kind: kind, Raw: string(out)}
}

func mutateJSON(r *hx.Rng, v any, h func() any, depth int) any {
	if depth > 0 && r.Chance(1, 4) {
		return h()
	}
	switch x := v.(type) {
	case map[string]any:
		if len(x) == 0 {
			return h()
		}
		keys := make([]string, 0, len(x))
		for k := range x {
			keys = append(keys, k)
		}
		sortStrings(keys)
		k := keys[r.Intn(len(keys))]
		if r.Chance(1, 8) {
			delete(x, k)
		} else {
			x[k] = mutateJSON(r, x[k], h, depth+1)
		}
		return x
	case []any:
		if len(x) == 0 {
			return h()
		}
		i := r.Intn(len(x))
		x[i] = mutateJSON(r, x[i], h, depth+1)
		return x
	}
	return h()
}

func sortStrings(s []string) {
	for i := 1; i < len(s); i++ {
		for j := i; j > 0 && s[j] < s[j-1]; j-- {
			s[j], s[j-1] = s[j-1], s[j]
		}
	}
}
