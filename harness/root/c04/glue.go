package c04

import (
	"strings"

	"verif/harness/hx"
)

// coqCase prints the case (with the observed outcome) as a term of Model.Hostile.case.
func coqCase(ctx *hx.Ctx, c Case, o Obs) (term, key string, nontrivial bool) {
	switch c.Kind {
	case "footer":
		term = coqFooter(c, o)
	case "open":
		term = coqOpen(c, o)
	case "tree":
		term = coqTree(c, o)
		if len(o.List) > 0 {
			ctx.Count("tree.walked")
		}
		for _, e := range c.Ops {
			if e.Type == "hardlink" {
				ctx.Count("tree.hardlink")
				break
			}
		}
	case "read":
		term = coqRead(c, o)
	case "chunk":
		term = CoqChunkAs("CChunk", c, o)
	case "json":
		term = coqJSONAs("CJson", c, o)
	case "merge", "build", "remote", "buildk":
		term = "COracle " + coqObs(Obs{Class: o.Class}) // no model: the outcome class is the whole observation
	}
	if strings.Contains(o.Msg, "loops") {
		ctx.Count("tree.hardlink-loop-rejected")
	}
	if o.Msg == "shared-directory" {
		ctx.Count("tree.shared-directory")
	}
	if strings.Contains(o.Msg, "invalid chunk (offset") {
		ctx.Count("read.bad-chunk-rejected")
	}
	if strings.Contains(o.Msg, "invalid TOC range") {
		ctx.Count("open.bad-toc-range-rejected")
	}
	return term, term, true
}

func corpus() []Case {
	cs := footerCorpus()
	cs = append(cs, footerSweep()...)
	cs = append(cs, readCorpus()...)
	cs = append(cs, ChunkCorpus("chunk")...)
	cs = append(cs, mergeCorpus()...)
	cs = append(cs, buildCorpus()...)
	cs = append(cs, jsonCorpus("json")...)
	cs = append(cs, remoteCorpus()...)
	cs = append(cs, buildKCorpus()...)
	cs = append(cs, treeCorpus()...)
	return cs
}

func gen(r *hx.Rng, i int) Case {
	switch r.Pick(3, 3, 3, 2, 2, 2, 3, 2, 2, 4) {
	case 0:
		return genFooter(r)
	case 1:
		return genOpen(r)
	case 2:
		return genRead(r)
	case 3:
		return GenChunk(r, "chunk")
	case 4:
		return genMerge(r)
	case 5:
		return genBuild(r)
	case 6:
		return genJSON(r, "json")
	case 7:
		return genRemote(r)
	case 8:
		return genBuildK(r)
	}
	return genTree(r)
}
