package c04

import (
	"github.com/containerd/stargz-snapshotter/estargz"
	"github.com/containerd/stargz-snapshotter/metadata"
	"verif/harness/hx"
)

// Exported pieces for the db-store harness (harness/cmdmod/cmd/hostiledb).

func TinyBlob(es []*estargz.TOCEntry) []byte        { return tinyBlob(es) }
func TocEntries(es []Ent) []*estargz.TOCEntry       { return tocEntries(es) }
func GenTree(r *hx.Rng) Case                        { return genTree(r) }
func GenOpen(r *hx.Rng) Case                        { return genOpen(r) }
func TreeCorpus() []Case                            { return treeCorpus() }
func OpenCorpus() []Case                            { return append(footerCorpus(), footerSweep()...) }
func Decompressor(name string) estargz.Decompressor { return decompressor(name) }
func CoqObs(o Obs) string                           { return coqObs(o) }
func CoqTreeAs(ctor string, c Case, o Obs) string   { return ctor + coqTree(c, o)[len("CTree"):] }
func CoqOpenAs(ctor string, c Case, o Obs) string   { return ctor + coqOpen(c, o)[len("COpen"):] }
func ProbeFile(mr metadata.Reader, id uint32)       { probeFile(mr, id) }

// WalkAll traverses the metadata tree (each directory id once) making the per-node calls the FUSE layer makes.
func WalkAll(mr metadata.Reader) (list []string, files []uint32, shared bool) {
	w := &walker{mr: mr, visited: map[uint32]bool{mr.RootID(): true}}
	w.walk(mr.RootID())
	return w.list, w.files, w.shared
}

func RawBlob(raw []byte) []byte                   { return rawBlob(raw) }
func JSONCorpus(kind string) []Case               { return jsonCorpus(kind) }
func GenJSON(r *hx.Rng, kind string) Case         { return genJSON(r, kind) }
func CoqJSONAs(ctor string, c Case, o Obs) string { return coqJSONAs(ctor, c, o) }
