package c04

import (
	"archive/tar"
	"bytes"
	"compress/gzip"
	"io"

	"github.com/containerd/stargz-snapshotter/estargz"
	"github.com/containerd/stargz-snapshotter/fs/reader"
	"verif/harness/hx"
)

// ---- "merge": fs/reader GetPassthroughFd (chunk collection, merge-buffer batches) over an arbitrary chunk table ----
// Oracle only: the call returns (a value or an error). Len = merge buffer size, Workers = merge worker count.

func execMerge(c Case) Obs {
	m := &fakeMeta{c: &c}
	vr, err := reader.NewReader(m, &fakeCache{m: m}, "")
	if err != nil {
		return Obs{Class: "error", Msg: err.Error()}
	}
	ra, err := vr.SkipVerify().OpenFile(2)
	if err != nil {
		return Obs{Class: "error", Msg: err.Error()}
	}
	g, ok := ra.(reader.PassthroughFdGetter)
	if !ok {
		return Obs{Class: "error", Msg: "no passthrough"}
	}
	if _, r, err := g.GetPassthroughFd(int64(c.Len), c.Workers); err != nil {
		return Obs{Class: "error", Msg: err.Error()}
	} else if r != nil {
		r.Close()
	}
	return Obs{Class: "ok"}
}

func genMerge(r *hx.Rng) Case {
	c := genRead(r)
	c.Kind = "merge"
	c.Hits = nil
	c.Off = 0
	c.Len = r.Range(1, 24) // merge buffer size: chunks straddle batch boundaries
	c.Workers = r.Range(1, 4)
	return c
}

func mergeCorpus() []Case {
	tile := []Chunk{{0, 10}, {10, 10}, {20, 10}}
	return []Case{
		{Kind: "merge", Chunks: tile, Fsize: 30, Len: 10, Workers: 2},
		{Kind: "merge", Chunks: tile, Fsize: 30, Len: 8, Workers: 2},                                 // F21: chunks straddle the 8-byte batches
		{Kind: "merge", Chunks: tile, Fsize: 30, Len: 25, Workers: 3},                                // F21: third chunk crosses offset 25
		{Kind: "merge", Chunks: []Chunk{{0, 10}, {10, 0}, {10, 10}}, Fsize: 30, Len: 10, Workers: 2}, // empty chunk: no progress
		{Kind: "merge", Chunks: []Chunk{{0, 10}, {10, -4}, {6, 10}}, Fsize: 30, Len: 10, Workers: 2}, // negative size
		{Kind: "merge", Chunks: []Chunk{{0, 10}, {5, 10}, {15, 10}}, Fsize: 30, Len: 10, Workers: 2}, // overlap
		{Kind: "merge", Chunks: []Chunk{{0, 10}, {20, 10}}, Fsize: 30, Len: 10, Workers: 1},          // gap
		{Kind: "merge", Chunks: []Chunk{{3, 10}}, Fsize: 30, Len: 10, Workers: 1},                    // does not start at 0
	}
}

// ---- "build": hostile tar / gzip input to estargz.Build, hostile blobs to estargz.Unpack. Oracle only. ----

func execBuild(c Case) Obs {
	sr := io.NewSectionReader(bytes.NewReader(c.Blob), 0, int64(len(c.Blob)))
	if c.Dec != "" { // Unpack with the named decompressor
		rc, err := estargz.Unpack(sr, decompressor(c.Dec))
		if err != nil {
			return Obs{Class: "error", Msg: err.Error()}
		}
		defer rc.Close()
		if _, err := io.Copy(io.Discard, io.LimitReader(rc, 1<<22)); err != nil {
			return Obs{Class: "error", Msg: err.Error()}
		}
		return Obs{Class: "ok"}
	}
	opts := []estargz.Option{estargz.WithChunkSize(int(c.Off))}
	if c.Ext {
		opts = append(opts, estargz.WithPrioritizedFiles([]string{"a", "d/f", "nonexistent"}), estargz.WithAllowPrioritizeNotFound(new([]string)))
	}
	b, err := estargz.Build(sr, opts...)
	if err != nil {
		return Obs{Class: "error", Msg: err.Error()}
	}
	defer b.Close()
	if _, err := io.Copy(io.Discard, io.LimitReader(b, 1<<22)); err != nil {
		return Obs{Class: "error", Msg: err.Error()}
	}
	return Obs{Class: "ok"}
}

func hostileTar(r *hx.Rng) []byte {
	var buf bytes.Buffer
	tw := tar.NewWriter(&buf)
	names := []string{"a", "d/", "d/f", "./", "../x", "a", "d/f/g", "", "/abs", "d//f", ".prefetch.landmark", "stargz.index.json"}
	for i, n := 0, r.Range(0, 7); i < n; i++ {
		h := &tar.Header{Name: names[r.Intn(len(names))], Mode: 0644}
		var data []byte
		switch r.Pick(5, 2, 2, 2, 1, 1) {
		case 0:
			h.Typeflag = tar.TypeReg
			data = r.Bytes(r.Intn(40))
			h.Size = int64(len(data))
		case 1:
			h.Typeflag = tar.TypeDir
		case 2:
			h.Typeflag = tar.TypeLink
			h.Linkname = names[r.Intn(len(names))]
		case 3:
			h.Typeflag = tar.TypeSymlink
			h.Linkname = names[r.Intn(len(names))]
		case 4:
			h.Typeflag = tar.TypeFifo
		case 5:
			h.Typeflag = byte(r.Intn(256))
		}
		if tw.WriteHeader(h) != nil {
			break
		}
		tw.Write(data)
	}
	if r.Chance(3, 4) {
		tw.Close()
	}
	return buf.Bytes()
}

func genBuild(r *hx.Rng) Case {
	c := Case{Kind: "build", Ext: r.Bool(), Off: int64([]int{0, 1, 7, 4 << 20}[r.Intn(4)])}
	b := hostileTar(r)
	for k := r.Pick(3, 2, 1); k > 0 && len(b) > 0; k-- {
		switch r.Intn(4) {
		case 0:
			b[r.Intn(len(b))] ^= byte(1 << uint(r.Intn(8))) // header/size/checksum corruption
		case 1:
			b = b[:r.Intn(len(b)+1)] // truncation
		case 2: // octal size field of the first header: huge / negative-looking
			if len(b) >= 512 {
				copy(b[124:136], []byte([]string{"77777777777\x00", "\xff\xff\xff\xff\xff\xff\xff\xff\xff\xff\xff\xff", "\x80\x00\x00\x00\x7f\xff\xff\xff\xff\xff\xff\xff"}[r.Intn(3)]))
			}
		case 3:
		}
	}
	switch r.Pick(3, 2, 1, 2) {
	case 1: // gzip-compressed input, possibly truncated
		var z bytes.Buffer
		zw := gzip.NewWriter(&z)
		zw.Write(b)
		zw.Close()
		b = z.Bytes()
		if r.Chance(1, 3) && len(b) > 0 {
			b = b[:r.Intn(len(b))]
		}
	case 2:
		b = append([]byte{0x28, 0xb5, 0x2f, 0xfd}, r.Bytes(r.Intn(30))...) // zstd magic + garbage
	case 3: // Unpack of a hostile blob
		c.Dec = decs[r.Intn(4)]
		o := genOpen(r)
		b = o.Blob
	}
	c.Blob = b
	return c
}

func buildCorpus() []Case {
	return []Case{
		{Kind: "build", Blob: nil},
		{Kind: "build", Blob: make([]byte, 1024)},
		{Kind: "build", Blob: []byte{0x1f, 0x8b}},
		{Kind: "build", Dec: "gzip", Blob: tinyBlob(nil)},
		{Kind: "build", Dec: "zstd", Blob: validFooter("zstd", 1<<40)},
		{Kind: "build", Dec: "gzip", Blob: append(make([]byte, 9), validFooter("gzip", 1<<40)...)},
		{Kind: "build", Dec: "ext", Blob: validFooter("ext", 0)},
	}
}
