// C04 correspondence harness: hostile layer bytes / TOCs / chunk tables against the real
// estargz, zstdchunked, externaltoc, metadata/memory and fs/reader packages.
//
// Every case is executed in a CHILD process (this binary re-executed with -child): recoverable panics are caught
// there with recover(), fatal errors (stack overflow, out of memory, a panic in a goroutine of the implementation)
// kill the child and are classified by the parent from the exit status / stderr; a watchdog kills a child that does
// not answer (hang). Outcome classes: ok | error | panic | stackoverflow | timeout | oom | crash.
//
// The model-free oracle of the property: the class must be ok or error. The Coq model (Model/Hostile.v) is
// evaluated on the same input and must predict the same class and the same observable values.
package c04

import (
	"bufio"
	"bytes"
	"encoding/json"
	"fmt"
	"io"
	"os"
	"os/exec"
	"runtime"
	"runtime/debug"
	"strings"
	"syscall"
	"time"

	clog "github.com/containerd/log"
	"verif/harness/hx"
)

// ---- case ----

type Ent struct {
	Name        string `json:"name"`
	Type        string `json:"type"`
	Link        string `json:"link,omitempty"`
	Size        int64  `json:"size,omitempty"`
	Offset      int64  `json:"offset,omitempty"`
	ChunkOffset int64  `json:"co,omitempty"`
	ChunkSize   int64  `json:"cs,omitempty"`
	InnerOffset int64  `json:"io,omitempty"`
	NoDigest    bool   `json:"nodigest,omitempty"`
}

type Chunk struct {
	Off  int64 `json:"off"`
	Size int64 `json:"size"`
}

type Case struct {
	Kind string `json:"kind"` // footer | open | tree | read
	// footer
	Dec string `json:"dec,omitempty"` // gzip | legacy | zstd | ext
	P   []byte `json:"p,omitempty"`
	// open
	Blob   []byte `json:"blob,omitempty"`
	Ext    bool   `json:"ext,omitempty"`    // register zstd:chunked and external-TOC decompressors (as the snapshotter does)
	TocOff int64  `json:"tocoff,omitempty"` // WithTOCOffset
	// tree: Ops = TOC entries; read: Ops2 = chunk table
	Ops     []Ent   `json:"ops,omitempty"`
	Chunks  []Chunk `json:"chunks,omitempty"`
	Off     int64   `json:"off,omitempty"`
	Len     int     `json:"len,omitempty"`
	Fsize   int64   `json:"fsize,omitempty"`
	Workers int     `json:"workers,omitempty"` // merge: worker count (Len = merge buffer size)
	Raw     string  `json:"raw,omitempty"`     // json: the TOC JSON text
	Probe   *Rep    `json:"probe,omitempty"`   // remote: reply script for the refresh/redirect probe
	Get     *Rep    `json:"get,omitempty"`     // remote: reply script for ranged blob GETs
	Hits    []bool  `json:"hits,omitempty"`
}

// Obs is what the implementation did.
type Obs struct {
	Class string   `json:"class"`
	Vals  []int64  `json:"vals,omitempty"`
	List  []string `json:"list,omitempty"`
	Msg   string   `json:"msg,omitempty"`
	// Restart: goroutines of the implementation were still running when the case was answered
	Restart bool `json:"restart,omitempty"`
}

func okClass(c string) bool { return c == "ok" || c == "error" }

// ---- child side ----

func childMain() {
	// the implementation's log lines would fill the captured head of stderr, where a crash report is looked for
	clog.L.Logger.SetOutput(io.Discard)
	debug.SetMaxStack(48 << 20)
	// address-space limit: a hostile size must end in an error, not in the OOM killer taking the harness down
	lim := syscall.Rlimit{Cur: 6 << 30, Max: 6 << 30}
	_ = syscall.Setrlimit(syscall.RLIMIT_AS, &lim)
	in := bufio.NewReaderSize(os.Stdin, 1<<20)
	out := bufio.NewWriter(os.Stdout)
	for {
		line, err := in.ReadBytes('\n')
		if len(line) > 0 {
			var c Case
			if e := json.Unmarshal(line, &c); e != nil {
				fmt.Fprintln(os.Stderr, "child: bad case:", e)
				os.Exit(3)
			}
			base := runtime.NumGoroutine()
			o := safeExec(c)
			// goroutines started by the implementation (prefetch) must have ended - or crashed the process - before this
			// case is answered; otherwise the next case gets a fresh child
			prefetching := c.Kind == "tree" || c.Kind == "json" || c.Kind == "dbtree" || c.Kind == "dbjson"
			for i := 0; prefetching && i < 100 && runtime.NumGoroutine() > base; i++ {
				time.Sleep(5 * time.Millisecond)
			}
			if prefetching && runtime.NumGoroutine() > base {
				o.Restart = true
			}
			b, _ := json.Marshal(o)
			out.Write(b)
			out.WriteByte('\n')
			out.Flush()
		}
		if err != nil {
			return
		}
	}
}

func safeExec(c Case) (o Obs) {
	defer func() {
		if r := recover(); r != nil {
			o = Obs{Class: "panic", Msg: fmt.Sprint(r)}
		}
	}()
	return execCase(c)
}

func execCase(c Case) Obs {
	switch c.Kind {
	case "footer":
		return execFooter(c)
	case "open":
		return execOpen(c)
	case "tree":
		return execTree(c)
	case "read":
		return execRead(c)
	case "chunk":
		return execChunk(c)
	case "merge":
		return execMerge(c)
	case "build":
		return execBuild(c)
	case "json":
		return execJSON(c)
	case "remote":
		return execRemote(c)
	case "buildk":
		return execBuildK(c)
	}
	if f, ok := cfg.Exec[c.Kind]; ok {
		return f(c)
	}
	return Obs{Class: "error", Msg: "unknown kind"}
}

// ---- parent side: child pool ----

type child struct {
	cmd    *exec.Cmd
	stdin  io.WriteCloser
	lines  chan []byte
	stderr *bytes.Buffer
}

func startChild() *child {
	cmd := exec.Command(os.Args[0], "-child")
	cmd.Env = append(os.Environ(), "GOTRACEBACK=single")
	stdin, _ := cmd.StdinPipe()
	stdout, _ := cmd.StdoutPipe()
	eb := &bytes.Buffer{}
	cmd.Stderr = &capWriter{b: eb, max: 1 << 16}
	if err := cmd.Start(); err != nil {
		panic(err)
	}
	ch := &child{cmd: cmd, stdin: stdin, lines: make(chan []byte, 4), stderr: eb}
	go func() {
		r := bufio.NewReaderSize(stdout, 1<<20)
		for {
			l, err := r.ReadBytes('\n')
			if len(l) > 0 && l[len(l)-1] == '\n' {
				ch.lines <- l
			}
			if err != nil {
				close(ch.lines)
				return
			}
		}
	}()
	return ch
}

// capWriter keeps the first max bytes (the head of a crash report names the cause).
type capWriter struct {
	b   *bytes.Buffer
	max int
}

func (w *capWriter) Write(p []byte) (int, error) {
	if room := w.max - w.b.Len(); room > 0 {
		if len(p) > room {
			w.b.Write(p[:room])
		} else {
			w.b.Write(p)
		}
	}
	return len(p), nil
}

func (ch *child) kill() {
	ch.stdin.Close()
	ch.cmd.Process.Kill()
	ch.cmd.Wait()
}

var theChild *child
var watchdog = 20 * time.Second

// runIsolated executes one case in the child process and classifies the outcome.
func runIsolated(c Case) Obs {
	if theChild == nil {
		theChild = startChild()
	}
	ch := theChild
	b, _ := json.Marshal(c)
	b = append(b, '\n')
	if _, err := ch.stdin.Write(b); err != nil {
		ch.kill()
		theChild = nil
		return Obs{Class: "crash", Msg: "child not accepting input: " + err.Error()}
	}
	select {
	case l, ok := <-ch.lines:
		if ok {
			var o Obs
			if err := json.Unmarshal(l, &o); err != nil {
				return Obs{Class: "crash", Msg: "bad child output"}
			}
			if o.Class == "panic" || o.Restart {
				// goroutines of a panicked call / of the prefetch may still run: a fresh child for the next case
				ch.kill()
				theChild = nil
			}
			return o
		}
		// child died while running this case
		ch.cmd.Wait()
		msg := ch.stderr.String()
		theChild = nil
		return Obs{Class: classify(msg), Msg: head(msg)}
	case <-time.After(watchdog):
		ch.kill()
		theChild = nil
		return Obs{Class: "timeout", Msg: fmt.Sprintf("no answer within %v", watchdog)}
	}
}

func classify(stderr string) string {
	switch {
	case strings.Contains(stderr, "stack overflow") || strings.Contains(stderr, "goroutine stack exceeds"):
		return "stackoverflow"
	case strings.Contains(stderr, "out of memory") || strings.Contains(stderr, "cannot allocate memory"):
		return "oom"
	case strings.Contains(stderr, "all goroutines are asleep"):
		return "timeout"
	case strings.Contains(stderr, "panic:"):
		return "panic"
	}
	return "crash"
}

func head(s string) string {
	ls := strings.Split(s, "\n")
	if len(ls) > 6 {
		ls = ls[:6]
	}
	s = strings.Join(ls, " | ")
	if len(s) > 400 {
		s = s[:400]
	}
	return s
}

// ---- main ----

// Config lets another harness (the db-store harness in harness/cmdmod) reuse the case type, the generators, the
// child-process machinery and the oracle with its own kinds.
type Config struct {
	Exec   map[string]func(Case) Obs // additional case kinds, executed in the child
	Corpus func() []Case             // nil: the default corpus (all streams)
	Gen    func(r *hx.Rng, i int) Case
	Coq    func(ctx *hx.Ctx, c Case, o Obs) (term, key string, nontrivial bool)
}

var cfg Config

// Main is the whole harness (parent and, with -child, child).
func Main(c Config) {
	cfg = c
	if cfg.Corpus == nil {
		cfg.Corpus = corpus
	}
	if cfg.Gen == nil {
		cfg.Gen = gen
	}
	if cfg.Coq == nil {
		cfg.Coq = coqCase
	}
	if len(os.Args) > 1 && os.Args[1] == "-child" {
		childMain()
		return
	}
	ctx := hx.Start()
	if ctx.Tier == "thorough" {
		watchdog = 40 * time.Second
	}
	emit := func(c Case) {
		o := runIsolated(c)
		ctx.Count("kind." + c.Kind)
		ctx.Count("class." + o.Class)
		ctx.Count(c.Kind + "." + o.Class)
		term, key, nontrivial := cfg.Coq(ctx, c, o)
		id := ctx.Case(term, c, key, nontrivial)
		if !okClass(o.Class) {
			if (c.Kind == "read" || c.Kind == "tree" || c.Kind == "dbtree" || c.Kind == "merge" || c.Kind == "json" || c.Kind == "dbjson") && hugeChunk(c) && (o.Class == "panic" || o.Class == "oom") &&
				(strings.Contains(o.Msg, "bytes.Buffer: too large") || strings.Contains(o.Msg, "out of memory") || strings.Contains(o.Msg, "bufio.NewReaderSize")) {
				// known: the temporary buffer for a chunk is allocated from the TOC's chunk size alone
				ctx.Count(c.Kind + ".huge-chunk-alloc")
				ctx.Finding(id, "chunk-buffer-alloc", "read/prefetch allocates a buffer of the TOC-declared chunk size; a chunk size beyond memory crashes the daemon", o)
			} else {
				ctx.Violation(id, fmt.Sprintf("%s case ends in %s (must be ok or error)", c.Kind, o.Class), o)
			}
		} else if strings.HasPrefix(o.Msg, "WRONG") {
			ctx.Violation(id, "read result: "+o.Msg, o)
		} else if ps := treeProblems(o); len(ps) > 0 {
			ctx.Violation(id, "metadata walk inconsistent: "+ps[0], o)
		}
	}
	if ctx.Replay != "" {
		var c Case
		ctx.LoadReplay(&c)
		emit(c)
		if theChild != nil {
			theChild.kill()
		}
		ctx.Finish()
		return
	}
	cs := cfg.Corpus()
	for _, c := range cs {
		emit(c)
	}
	r := hx.NewRng(ctx.Seed)
	// the corpus and the deterministic sweeps run every time; -n counts the random cases after them
	for i := 0; i < ctx.N; i++ {
		emit(cfg.Gen(r.Fork(), i))
	}
	if theChild != nil {
		theChild.kill()
	}
	ctx.Finish()
}
