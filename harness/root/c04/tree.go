package c04

import (
	"bytes"
	"crypto/sha256"
	"fmt"
	"io"
	"os"
	"path"
	"sort"
	"strings"

	"github.com/containerd/stargz-snapshotter/cache"
	"github.com/containerd/stargz-snapshotter/estargz"
	"github.com/containerd/stargz-snapshotter/fs/reader"
	"github.com/containerd/stargz-snapshotter/metadata"
	"github.com/containerd/stargz-snapshotter/metadata/memory"
	"verif/harness/hx"
)

// The "tree" stream: a syntactically valid TOC JSON with adversarial structure, wrapped in a well-formed blob
// (gzip TOC member + footer), opened by estargz.Open / memory.NewReader, fully walked through the metadata.Reader API,
// every regular file probed (chunk lookup at boundary offsets, small reads), prefetched (VerifiableReader.Cache).

func tocEntries(es []Ent) []*estargz.TOCEntry {
	var out []*estargz.TOCEntry
	for _, e := range es {
		t := &estargz.TOCEntry{Name: e.Name, Type: e.Type, LinkName: e.Link, Size: e.Size, Offset: e.Offset,
			ChunkOffset: e.ChunkOffset, ChunkSize: e.ChunkSize, InnerOffset: e.InnerOffset, Mode: 0644}
		if !e.NoDigest {
			d := fmt.Sprintf("sha256:%x", sha256.Sum256(nil))
			if e.Type == "reg" {
				t.Digest = d
			}
			if e.Type == "reg" || e.Type == "chunk" {
				t.ChunkDigest = d
			}
		}
		out = append(out, t)
	}
	return out
}

// walker: the harness's own traversal visits each directory id once (the path space of a cyclic graph is infinite; that
// is the walker's problem, not the daemon's). What is asserted is that every metadata.Reader call returns and is
// consistent. The listing (one "kind/base" item per child of every visited directory) is independent of map order.
type walker struct {
	mr      metadata.Reader
	visited map[uint32]bool
	list    []string
	files   []uint32
	shared  bool // some directory was reached a second time (hardlink to a directory / cycle)
}

func (w *walker) walk(id uint32) {
	var dirs []uint32
	w.mr.ForeachChild(id, func(name string, cid uint32, mode os.FileMode) bool {
		kind := 1
		if mode.IsDir() {
			kind = 0
		}
		w.list = append(w.list, fmt.Sprintf("%d/%s", kind, name))
		// the calls the FUSE layer makes per node
		if _, err := w.mr.GetAttr(cid); err != nil {
			w.list = append(w.list, "attr-error/"+name)
		}
		if id2, _, err := w.mr.GetChild(id, name); err != nil || id2 != cid {
			w.list = append(w.list, "lookup-mismatch/"+name)
		}
		if mode.IsDir() {
			if w.visited[cid] {
				w.shared = true
			} else {
				w.visited[cid] = true
				dirs = append(dirs, cid)
			}
		} else if mode.IsRegular() {
			w.files = append(w.files, cid)
		}
		return true
	})
	for _, d := range dirs {
		w.walk(d)
	}
}

func probeFile(mr metadata.Reader, id uint32) {
	at, err := mr.GetAttr(id)
	if err != nil {
		return
	}
	f, err := mr.OpenFile(id)
	if err != nil {
		return
	}
	buf := make([]byte, 8)
	for _, off := range []int64{0, 1, at.Size - 1, at.Size, at.Size + 1, -1, 1 << 40, at.Size / 2} {
		f.ChunkEntryForOffset(off)
		f.ReadAt(buf, off)
	}
}

func execTree(c Case) Obs { return execTreeBlob(tinyBlob(tocEntries(c.Ops)), c.Ops) }

// TryPassthrough asks for the passthrough file of a regular file with a small merge buffer (chunk collection loop,
// merge batches); errors are expected (the memory cache has no file to pass through).
func TryPassthrough(ra io.ReaderAt) {
	if g, ok := ra.(reader.PassthroughFdGetter); ok {
		if _, r, err := g.GetPassthroughFd(8, 2); err == nil && r != nil {
			r.Close()
		}
	}
}

func execTreeBlob(blob []byte, ops []Ent) Obs {
	sr := io.NewSectionReader(bytes.NewReader(blob), 0, int64(len(blob)))
	mr, err := memory.NewReader(sr)
	if err != nil {
		return Obs{Class: "error", Msg: err.Error()}
	}
	defer mr.Close()
	w := &walker{mr: mr, visited: map[uint32]bool{mr.RootID(): true}}
	w.walk(mr.RootID())
	n := -1
	if nn, ok := mr.(interface{ NumOfNodes() (int, error) }); ok {
		n, _ = nn.NumOfNodes()
	}
	for _, id := range w.files {
		probeFile(mr, id)
	}
	// estargz.Reader API over every name mentioned in the TOC
	if er, err := estargz.Open(sr); err == nil {
		for _, e := range ops {
			for _, nm := range []string{e.Name, e.Link} {
				er.Lookup(nm)
				er.ChunkEntryForOffset(nm, 0)
				er.ChunkEntryForOffset(nm, e.Size)
				if fr, err := er.OpenFile(nm); err == nil {
					fr.ReadAt(make([]byte, 4), 0)
				}
			}
		}
		er.Verifiers()
	}
	// prefetch walk + chunk reads through fs/reader, then on-demand reads
	if vr, err := reader.NewReader(mr, cache.NewMemoryCache(), ""); err == nil {
		vr.Cache()
		gr := vr.SkipVerify()
		for _, id := range w.files {
			if ra, err := gr.OpenFile(id); err == nil {
				ra.ReadAt(make([]byte, 16), 0)
				ra.ReadAt(make([]byte, 16), 3)
				TryPassthrough(ra)
			}
		}
	}
	sort.Strings(w.list)
	msg := ""
	if w.shared {
		msg = "shared-directory"
	}
	return Obs{Class: "ok", Vals: []int64{int64(n)}, List: w.list, Msg: msg}
}

// ---- printing: names as lists of component numbers ----

func clean(name string) []string {
	s := strings.TrimPrefix(path.Clean("/"+name), "/")
	if s == "" {
		return nil
	}
	return strings.Split(s, "/")
}

type interner struct{ ids map[string]int }

func (in *interner) name(parts []string) string {
	xs := make([]int, len(parts))
	for i, p := range parts {
		id, ok := in.ids[p]
		if !ok {
			id = len(in.ids)
			in.ids[p] = id
		}
		xs[i] = id
	}
	return hx.CoqNatList(xs)
}

var tyCoq = map[string]string{"dir": "TDir", "reg": "TReg", "symlink": "TSymlink", "hardlink": "THardlink", "chunk": "TChunk"}

func coqTree(c Case, o Obs) string {
	in := &interner{ids: map[string]int{}}
	es := make([]string, len(c.Ops))
	for i, e := range c.Ops {
		ty, ok := tyCoq[e.Type]
		if !ok {
			ty = "TOther"
		}
		es[i] = fmt.Sprintf("mkEntry %s %s %s", in.name(clean(e.Name)), ty, in.name(clean(e.Link)))
	}
	ls := []string{}
	bad := false
	for _, l := range o.List {
		if l[0] != '0' && l[0] != '1' {
			bad = true // attr-error / lookup-mismatch lines: reported by the oracle
			continue
		}
		ls = append(ls, fmt.Sprintf("(%s, %c)", in.name([]string{l[2:]}), l[0]))
	}
	_ = bad
	return fmt.Sprintf("CTree %s %s %s", hx.CoqList(es), coqObs(o), hx.CoqList(ls))
}

func treeProblems(o Obs) []string {
	var ps []string
	for _, l := range o.List {
		if l[0] != '0' && l[0] != '1' {
			ps = append(ps, l)
		}
	}
	return ps
}

// ---- generator ----

var comps = []string{"a", "b", "c", "d"}

func rawName(r *hx.Rng, depth int) string {
	n := r.Range(1, depth)
	parts := make([]string, n)
	for i := range parts {
		parts[i] = comps[r.Pick(4, 3, 2, 1)]
	}
	s := strings.Join(parts, "/")
	switch r.Pick(12, 1, 1, 1, 1, 1, 1) {
	case 1:
		s = "./" + s
	case 2:
		s = "/" + s
	case 3:
		s = s + "/"
	case 4:
		s = strings.Replace(s, "/", "//", 1)
	case 5:
		s = s + "/.."
	case 6:
		s = []string{"", ".", "./", "/", "..", "../a"}[r.Intn(6)]
	}
	return s
}

var types = []string{"dir", "reg", "hardlink", "symlink", "chunk", "char", "fifo", "", "bogus"}

func genTree(r *hx.Rng) Case {
	c := Case{Kind: "tree"}
	n := r.Range(1, 14)
	depth := r.Range(1, 4)
	var names []string
	pickName := func() string {
		if len(names) > 0 && r.Chance(2, 3) {
			return names[r.Intn(len(names))]
		}
		return rawName(r, depth)
	}
	for i := 0; i < n; i++ {
		e := Ent{Type: types[r.Pick(6, 8, 8, 1, 3, 1, 1, 1, 1)]}
		if r.Chance(1, 4) && len(names) > 0 {
			// below an existing name (also below files and hardlinks)
			e.Name = names[r.Intn(len(names))] + "/" + comps[r.Intn(4)]
		} else {
			e.Name = rawName(r, depth)
		}
		switch e.Type {
		case "hardlink":
			switch r.Pick(6, 2, 1, 1) {
			case 0:
				e.Link = pickName()
			case 1: // an ancestor directory or itself
				e.Link = path.Dir(e.Name)
				if r.Bool() {
					e.Link = e.Name
				}
			case 2:
				e.Link = ""
			case 3:
				e.Link = "nonexistent"
			}
		case "symlink":
			e.Link = pickName()
		case "reg", "chunk":
			e.Size = []int64{0, 1, 10, 100, -1, 1 << 62, -1 << 63}[r.Pick(2, 2, 6, 3, 1, 1, 1)]
			e.Offset = []int64{0, 1, 10, -5, 1 << 62, 1 << 20}[r.Pick(3, 3, 3, 1, 1, 1)]
			e.ChunkSize = []int64{0, 1, 4, 10, -3, 1 << 62}[r.Pick(5, 2, 3, 3, 1, 1)]
			e.ChunkOffset = []int64{0, 4, 10, -2, 1 << 62}[r.Pick(6, 3, 3, 1, 1)]
			e.InnerOffset = []int64{0, 5, -1, 1 << 40}[r.Pick(8, 2, 1, 1)]
			e.NoDigest = r.Chance(1, 6)
		}
		names = append(names, e.Name)
		c.Ops = append(c.Ops, e)
	}
	return c
}

func treeCorpus() []Case {
	return []Case{
		{Kind: "tree", Ops: []Ent{{Name: "a/", Type: "dir"}, {Name: "a/f", Type: "reg", Size: 10}, {Name: "a/g", Type: "hardlink", Link: "a/f"}, {Name: "b/c/d", Type: "symlink", Link: "../x"}}},
		// F4: hardlink cycle
		{Kind: "tree", Ops: []Ent{{Name: "a", Type: "hardlink", Link: "b"}, {Name: "b", Type: "hardlink", Link: "a"}}},
		{Kind: "tree", Ops: []Ent{{Name: "a", Type: "hardlink", Link: "a"}}},
		// F5: hardlink to the parent directory
		{Kind: "tree", Ops: []Ent{{Name: "d/", Type: "dir"}, {Name: "d/l", Type: "hardlink", Link: "d"}}},
		// two links to an ancestor directory: fan-out 2 on a cyclic directory graph (2^depth paths)
		{Kind: "tree", Ops: []Ent{{Name: "d/", Type: "dir"}, {Name: "d/f", Type: "reg", Size: 3}, {Name: "d/e/l", Type: "hardlink", Link: "d"}, {Name: "d/e/m", Type: "hardlink", Link: "d"}}},
		{Kind: "tree", Ops: []Ent{{Name: "d/l", Type: "hardlink", Link: "d"}}},
		// shared directory subtrees doubling at each level
		{Kind: "tree", Ops: shareDirs(18)},
		// 2^40 paths to d0 without any cycle (depth 40 only): the prefetch walk must not enumerate paths
		{Kind: "tree", Ops: shareDirs(40)},
		// hardlink to the root / implicit ancestor
		{Kind: "tree", Ops: []Ent{{Name: "x/y/l", Type: "hardlink", Link: "x"}}},
		{Kind: "tree", Ops: []Ent{{Name: "x/l", Type: "hardlink", Link: ""}, {Name: "x/m", Type: "hardlink", Link: "/"}}},
		// a regular file with children, one of them a hardlink back to it (cyclic through a non-directory)
		{Kind: "tree", Ops: []Ent{{Name: "a", Type: "reg", Size: 1}, {Name: "a/b", Type: "hardlink", Link: "a"}}},
		// sharing that doubles the walk at each level (2^n visits without the visited check)
		{Kind: "tree", Ops: shareChain(22)},
		// root entries, dot names, duplicates, unknown types, chunk without reg
		{Kind: "tree", Ops: []Ent{{Name: "./", Type: "dir"}, {Name: "", Type: "reg"}, {Name: ".", Type: "hardlink", Link: "a"}, {Name: "a", Type: "bogus"}, {Name: "a", Type: "dir"}, {Name: "zz", Type: "chunk", ChunkOffset: 4}}},
		// 2^62 one-byte chunks announced: capacity hint of the chunk table (C04-fix-10)
		{Kind: "tree", Ops: []Ent{{Name: "big", Type: "reg", Size: 1 << 62, ChunkSize: 1, NoDigest: true}}},
		// size = MaxInt64 with one-byte chunks: Size/ChunkSize+1 overflows (C04-fix-16)
		{Kind: "tree", Ops: []Ent{{Name: "big", Type: "reg", Size: 1<<63 - 1, ChunkSize: 1, NoDigest: true}}},
		{Kind: "tree", Ops: []Ent{{Name: "big", Type: "reg", Size: 1<<63 - 1, ChunkSize: 1<<63 - 2, NoDigest: true}, {Name: "big", Type: "chunk", ChunkOffset: 1<<63 - 2}}},
		// trailing chunk with chunkOffset == file size and no chunkSize: an empty chunk at EOF (GetPassthroughFd loop)
		{Kind: "tree", Ops: []Ent{{Name: "f", Type: "reg", Size: 10, ChunkSize: 5, Offset: 10}, {Name: "f", Type: "chunk", ChunkOffset: 5, ChunkSize: 5, Offset: 20}, {Name: "f", Type: "chunk", ChunkOffset: 10, Offset: 30}}},
		// empty chunk found for an offset inside the file (gap before it): the prefetch chunk loop must advance
		{Kind: "tree", Ops: []Ent{{Name: "f", Type: "reg", Size: 10, ChunkSize: 4, Offset: 10}, {Name: "f", Type: "chunk", ChunkOffset: 10, Offset: 20}}},
		{Kind: "tree", Ops: []Ent{{Name: "f", Type: "reg", Size: 10, ChunkSize: 4, Offset: 10}, {Name: "f", Type: "chunk", ChunkOffset: 0, Offset: 20}, {Name: "f", Type: "chunk", ChunkOffset: 7, ChunkSize: -3, Offset: 30}}},
		// chunked file with gap / unsorted / overlapping chunks and hostile numbers
		{Kind: "tree", Ops: []Ent{{Name: "f", Type: "reg", Size: 30, ChunkSize: 10, Offset: 10}, {Name: "f", Type: "chunk", ChunkOffset: 20, ChunkSize: 10, Offset: 20}, {Name: "f", Type: "chunk", ChunkOffset: 5, ChunkSize: -10, Offset: 30}}},
	}
}

// shareChain: e0 regular; e(i) regular with two children that are hardlinks to e(i-1).
func shareChain(n int) []Ent {
	es := []Ent{{Name: "e0", Type: "reg"}}
	for i := 1; i <= n; i++ {
		p := fmt.Sprintf("e%d", i)
		es = append(es, Ent{Name: p, Type: "reg"},
			Ent{Name: p + "/x", Type: "hardlink", Link: fmt.Sprintf("e%d", i-1)},
			Ent{Name: p + "/y", Type: "hardlink", Link: fmt.Sprintf("e%d", i-1)})
	}
	return es
}

// shareDirs: d0 a directory with a file; d(i) a directory with two hardlinks to d(i-1).
func shareDirs(n int) []Ent {
	es := []Ent{{Name: "d0/", Type: "dir"}, {Name: "d0/f", Type: "reg", Size: 1}}
	for i := 1; i <= n; i++ {
		p := fmt.Sprintf("d%d", i)
		es = append(es, Ent{Name: p, Type: "dir"},
			Ent{Name: p + "/x", Type: "hardlink", Link: fmt.Sprintf("d%d", i-1)},
			Ent{Name: p + "/y", Type: "hardlink", Link: fmt.Sprintf("d%d", i-1)})
	}
	return es
}
