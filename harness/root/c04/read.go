package c04

import (
	"fmt"
	"io"
	"os"

	"github.com/containerd/stargz-snapshotter/cache"
	"github.com/containerd/stargz-snapshotter/fs/reader"
	"github.com/containerd/stargz-snapshotter/metadata"
	digest "github.com/opencontainers/go-digest"
	"verif/harness/hx"
)

// The "read" stream drives the real fs/reader file.ReadAt (chunk assembly arithmetic) over a metadata store that
// answers with an ARBITRARY chunk table: whatever a hostile TOC can make a metadata.File return.
// File content: byte i of the file is content(i); the file has Fsize bytes.

func content(i int64) byte { return byte(i*7 + 3) }

// lookup: first chunk (in table order) that the memory store's predicate accepts for the offset
// (chunk starts at/after the offset, or contains it). On a sorted, tiling table this is the usual lookup; on a hostile
// table it returns chunks that do not contain the offset, empty and negative chunks, overlapping chunks.
func lookup(chunks []Chunk, off int64) (Chunk, bool) {
	for _, c := range chunks {
		if c.Off >= off || (off > c.Off && off < c.Off+c.Size) {
			return c, true
		}
	}
	return Chunk{}, false
}

type fakeMeta struct {
	c    *Case
	last Chunk
}

func (m *fakeMeta) RootID() uint32                     { return 1 }
func (m *fakeMeta) TOCDigest() digest.Digest           { return "" }
func (m *fakeMeta) GetOffset(id uint32) (int64, error) { return 0, nil }
func (m *fakeMeta) GetAttr(id uint32) (metadata.Attr, error) {
	return metadata.Attr{Size: m.c.Fsize}, nil
}
func (m *fakeMeta) GetChild(pid uint32, base string) (uint32, metadata.Attr, error) {
	return 0, metadata.Attr{}, fmt.Errorf("not found")
}
func (m *fakeMeta) ForeachChild(id uint32, f func(name string, id uint32, mode os.FileMode) bool) error {
	return nil
}
func (m *fakeMeta) OpenFile(id uint32) (metadata.File, error) { return &fakeFile{m}, nil }
func (m *fakeMeta) OpenFileWithPreReader(id uint32, preRead func(id uint32, chunkOffset, chunkSize int64, chunkDigest string, r io.Reader) error) (metadata.File, error) {
	return &fakeFile{m}, nil
}
func (m *fakeMeta) Clone(sr *io.SectionReader) (metadata.Reader, error) { return m, nil }
func (m *fakeMeta) Close() error                                        { return nil }

type fakeFile struct{ m *fakeMeta }

func (f *fakeFile) ChunkEntryForOffset(offset int64) (int64, int64, string, bool) {
	c, ok := lookup(f.m.c.Chunks, offset)
	if ok {
		f.m.last = c
	}
	return c.Off, c.Size, "", ok
}

// ReadAt behaves like the io.SectionReader over the file payload: EOF at/after Fsize, short read at the end.
func (f *fakeFile) ReadAt(p []byte, off int64) (int, error) {
	if off < 0 {
		return 0, fmt.Errorf("negative offset")
	}
	if off >= f.m.c.Fsize {
		return 0, io.EOF
	}
	n := len(p)
	var err error
	if int64(n) > f.m.c.Fsize-off {
		n = int(f.m.c.Fsize - off)
		err = io.EOF
	}
	for i := 0; i < n; i++ {
		p[i] = content(off + int64(i))
	}
	return n, err
}

// fakeCache: Get hits according to the script (one entry consumed per Get); a hit returns the whole chunk.
type fakeCache struct {
	m    *fakeMeta
	hits []bool
}

func (c *fakeCache) Add(key string, opts ...cache.Option) (cache.Writer, error) {
	return nopWriter{}, nil
}
func (c *fakeCache) Get(key string, opts ...cache.Option) (cache.Reader, error) {
	hit := false
	if len(c.hits) > 0 {
		hit, c.hits = c.hits[0], c.hits[1:]
	}
	if !hit {
		return nil, fmt.Errorf("missed cache")
	}
	return &chunkReader{base: c.m.last.Off}, nil
}
func (c *fakeCache) Close() error { return nil }

type nopWriter struct{}

func (nopWriter) Write(p []byte) (int, error) { return len(p), nil }
func (nopWriter) Close() error                { return nil }
func (nopWriter) Commit() error               { return nil }
func (nopWriter) Abort() error                { return nil }

type chunkReader struct{ base int64 }

func (r *chunkReader) ReadAt(p []byte, off int64) (int, error) {
	for i := range p {
		p[i] = content(r.base + off + int64(i))
	}
	return len(p), nil
}
func (r *chunkReader) Close() error             { return nil }
func (r *chunkReader) GetReaderAt() io.ReaderAt { return r }

func execRead(c Case) Obs {
	m := &fakeMeta{c: &c}
	vr, err := reader.NewReader(m, &fakeCache{m: m, hits: append([]bool{}, c.Hits...)}, "")
	if err != nil {
		return Obs{Class: "error", Msg: err.Error()}
	}
	ra, err := vr.SkipVerify().OpenFile(2)
	if err != nil {
		return Obs{Class: "error", Msg: err.Error()}
	}
	p := make([]byte, c.Len)
	n, err := ra.ReadAt(p, c.Off)
	if err != nil {
		return Obs{Class: "error", Msg: err.Error()}
	}
	if n < 0 || n > len(p) {
		return Obs{Class: "ok", Vals: []int64{int64(n)}, Msg: "WRONG: n out of range"}
	}
	for i := 0; i < n; i++ {
		if at := c.Off + int64(i); at < c.Fsize && p[i] != content(at) {
			return Obs{Class: "ok", Vals: []int64{int64(n)}, Msg: fmt.Sprintf("WRONG: byte %d of the result is not the file's byte at %d", i, at)}
		}
	}
	return Obs{Class: "ok", Vals: []int64{int64(n)}}
}

func coqRead(c Case, o Obs) string {
	cs := make([]string, len(c.Chunks))
	for i, ch := range c.Chunks {
		cs[i] = "(" + hx.CoqZ(ch.Off) + ", " + hx.CoqZ(ch.Size) + ")"
	}
	hs := make([]string, len(c.Hits))
	for i, h := range c.Hits {
		hs[i] = hx.CoqBool(h)
	}
	return fmt.Sprintf("CRead %s %s %s %s %s %s", hx.CoqList(cs), hx.CoqZ(c.Off), hx.CoqZ(int64(c.Len)), hx.CoqZ(c.Fsize), hx.CoqList(hs), coqObs(o))
}

// hugeChunk: sizes for which the temporary chunk buffer cannot be allocated (known finding C04/F27)
func hugeChunk(c Case) bool {
	for _, ch := range c.Chunks {
		if ch.Size > 1<<31 {
			return true
		}
	}
	for _, e := range c.Ops {
		// the db store derives chunk sizes from the chunk offsets and the file size
		if e.ChunkSize > 1<<31 || e.Size > 1<<31 || e.ChunkOffset > 1<<31 || e.ChunkOffset < -(1<<31) {
			return true
		}
	}
	// json streams: any number of ten or more digits in the TOC text can become a chunk or file size
	run := 0
	for i := 0; i < len(c.Raw); i++ {
		if c.Raw[i] >= '0' && c.Raw[i] <= '9' {
			if run++; run >= 10 {
				return true
			}
		} else {
			run = 0
		}
	}
	return false
}

func genRead(r *hx.Rng) Case {
	c := Case{Kind: "read"}
	// a tiling table first
	n := r.Range(1, 6)
	pos := int64(0)
	if r.Chance(1, 8) {
		pos = int64(r.Intn(5))
	}
	for i := 0; i < n; i++ {
		s := int64(r.Range(1, 12))
		c.Chunks = append(c.Chunks, Chunk{Off: pos, Size: s})
		pos += s
	}
	c.Fsize = pos
	// hostile edits
	for k := r.Pick(4, 3, 2, 1); k > 0; k-- {
		i := r.Intn(len(c.Chunks))
		switch r.Pick(3, 3, 2, 2, 2, 2, 1, 1, 2) {
		case 0: // gap: drop a chunk
			if len(c.Chunks) > 1 {
				c.Chunks = append(c.Chunks[:i], c.Chunks[i+1:]...)
			}
		case 1: // overlap / shift
			c.Chunks[i].Off += int64(r.Range(-6, 6))
		case 2: // empty or negative size
			c.Chunks[i].Size = int64(r.Range(-5, 0))
		case 3: // larger / smaller chunk
			c.Chunks[i].Size += int64(r.Range(-4, 9))
		case 4: // unsorted
			j := r.Intn(len(c.Chunks))
			c.Chunks[i], c.Chunks[j] = c.Chunks[j], c.Chunks[i]
		case 5: // int64 boundary
			c.Chunks[i].Size = []int64{1<<63 - 1, 1 << 62, -1 << 63, 1 << 40}[r.Intn(4)]
		case 6:
			c.Chunks[i].Off = []int64{1<<63 - 1, -1 << 63, -1, 1 << 62}[r.Intn(4)]
		case 7: // duplicate
			c.Chunks = append(c.Chunks, c.Chunks[i])
		case 8: // file shorter / longer than the table says
			c.Fsize += int64(r.Range(-8, 8))
			if c.Fsize < 0 {
				c.Fsize = 0
			}
		}
	}
	c.Off = int64(r.Intn(int(pos) + 3))
	c.Len = r.Range(0, int(pos)+4)
	if r.Chance(1, 10) {
		c.Len = r.Intn(3)
	}
	for i := r.Intn(8); i > 0; i-- {
		c.Hits = append(c.Hits, r.Chance(1, 3))
	}
	return c
}

func readCorpus() []Case {
	tile := []Chunk{{0, 10}, {10, 10}, {20, 10}}
	return []Case{
		{Kind: "read", Chunks: tile, Fsize: 30, Off: 0, Len: 30},
		{Kind: "read", Chunks: tile, Fsize: 30, Off: 3, Len: 20, Hits: []bool{false, true, false}},
		// F7: gap before the found chunk (the chunk [10,20) is missing): lookup(10) answers [20,30)
		{Kind: "read", Chunks: []Chunk{{0, 10}, {20, 10}}, Fsize: 30, Off: 5, Len: 10},
		{Kind: "read", Chunks: []Chunk{{0, 10}, {20, 10}}, Fsize: 30, Off: 5, Len: 10, Hits: []bool{false, true}},
		// empty chunk: no progress
		{Kind: "read", Chunks: []Chunk{{0, 10}, {10, 0}, {10, 10}}, Fsize: 30, Off: 0, Len: 20},
		// overlapping chunk reaching back before the current position
		{Kind: "read", Chunks: []Chunk{{0, 5}, {2, 7}}, Fsize: 30, Off: 0, Len: 10},
		// negative size
		{Kind: "read", Chunks: []Chunk{{0, -3}}, Fsize: 30, Off: 0, Len: 4},
		// chunk table beyond the end of the file: reads return EOF without progress
		{Kind: "read", Chunks: []Chunk{{0, 10}, {10, 10}}, Fsize: 10, Off: 10, Len: 10},
		// huge chunk read at an unaligned offset: temporary buffer of the chunk size (known finding F27)
		{Kind: "read", Chunks: []Chunk{{0, 1 << 62}}, Fsize: 30, Off: 1, Len: 4},
	}
}
