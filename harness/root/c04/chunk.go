package c04

import (
	"fmt"

	"github.com/containerd/stargz-snapshotter/estargz"
	"verif/harness/hx"
)

// The "chunk" stream: chunk lookup (ChunkEntryForOffset) and the entry selection of fileReader.ReadAt over an arbitrary
// chunk table, through the verif exports of the estargz package (and, kind "dbchunk", of the db package).
// Observed: lookup result (found, ChunkOffset, ChunkSize) and the index of the entry ReadAt goes to read (-1: returned
// before reading).

type ChunkFns struct {
	Lookup func(chunks [][2]int64, off int64) (int64, int64, bool)
	Select func(chunks [][2]int64, size, off int64) (int, error)
}

func ChunkObs(f ChunkFns, c Case) Obs {
	t := make([][2]int64, len(c.Chunks))
	for i, ch := range c.Chunks {
		t[i] = [2]int64{ch.Off, ch.Size}
	}
	co, cs, ok := f.Lookup(t, c.Off)
	found := int64(0)
	if ok {
		found = 1
	}
	sel, _ := f.Select(t, c.Fsize, c.Off)
	return Obs{Class: "ok", Vals: []int64{found, co, cs, int64(sel)}}
}

func execChunk(c Case) Obs {
	return ChunkObs(ChunkFns{estargz.VerifChunkEntryForOffsetC04, estargz.VerifFileReaderSelectC04}, c)
}

func CoqChunkAs(ctor string, c Case, o Obs) string {
	cs := make([]string, len(c.Chunks))
	for i, ch := range c.Chunks {
		cs[i] = "(" + hx.CoqZ(ch.Off) + ", " + hx.CoqZ(ch.Size) + ")"
	}
	return fmt.Sprintf("%s %s %s %s %s", ctor, hx.CoqList(cs), hx.CoqZ(c.Fsize), hx.CoqZ(c.Off), coqObs(o))
}

// ChunkCorpus: every table of 1..3 chunks with ChunkOffset in {0,1,2,3} (sorted or not, duplicates), sizes varied, read
// at offsets 0..4 - every shape the binary searches can meet at these sizes - plus boundary cases.
func ChunkCorpus(kind string) []Case {
	var cs []Case
	sizes := []int64{2, 0, 1, 5, -1, 3}
	k := 0
	var rec func(t []Chunk, n int)
	rec = func(t []Chunk, n int) {
		if len(t) == n {
			for off := int64(0); off <= 4; off++ {
				cs = append(cs, Case{Kind: kind, Chunks: append([]Chunk{}, t...), Fsize: 5, Off: off})
			}
			return
		}
		for o := int64(0); o < 4; o++ {
			if n == 3 && o == 2 {
				continue // tables of three: offsets from {0,1,3}
			}
			k++
			rec(append(t, Chunk{Off: o, Size: sizes[k%len(sizes)]}), n)
		}
	}
	for n := 1; n <= 3; n++ {
		rec(nil, n)
	}
	tile := []Chunk{{0, 10}, {10, 10}, {20, 10}, {30, 10}, {40, 10}}
	for _, off := range []int64{-1, 0, 9, 10, 25, 49, 50, 51, 1 << 62} {
		cs = append(cs, Case{Kind: kind, Chunks: tile, Fsize: 50, Off: off})
		cs = append(cs, Case{Kind: kind, Chunks: tile[1:], Fsize: 50, Off: off}) // first chunk offset non-zero
	}
	cs = append(cs, Case{Kind: kind, Chunks: []Chunk{{1<<63 - 1, 1<<63 - 1}, {-1 << 63, 5}, {5, -1 << 63}}, Fsize: 1<<63 - 1, Off: 7})
	return cs
}

func GenChunk(r *hx.Rng, kind string) Case {
	c := Case{Kind: kind}
	n := r.Range(1, 9)
	pos := int64(0)
	for i := 0; i < n; i++ {
		s := int64(r.Range(1, 6))
		c.Chunks = append(c.Chunks, Chunk{Off: pos, Size: s})
		pos += s
	}
	c.Fsize = pos
	for k := r.Pick(3, 3, 2, 1); k > 0; k-- {
		i := r.Intn(len(c.Chunks))
		switch r.Intn(6) {
		case 0:
			c.Chunks[i].Off += int64(r.Range(-4, 4))
		case 1:
			c.Chunks[i].Size = int64(r.Range(-3, 1))
		case 2:
			j := r.Intn(len(c.Chunks))
			c.Chunks[i], c.Chunks[j] = c.Chunks[j], c.Chunks[i]
		case 3:
			c.Chunks[i].Off = []int64{1<<63 - 1, -1 << 63, -1, 1 << 62}[r.Intn(4)]
		case 4:
			c.Chunks[i].Size = []int64{1<<63 - 1, -1 << 63, 1 << 62}[r.Intn(3)]
		case 5:
			c.Fsize += int64(r.Range(-3, 3))
		}
	}
	c.Off = int64(r.Range(-1, int(pos)+2))
	return c
}
