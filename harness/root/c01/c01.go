// C01 correspondence harness: drives the real verification chain
//
//	estargz.Build -> (corruption) -> metadata/memory.NewReader -> fs/reader.NewReader (+ fs/layer layer object)
//
// with random histories of VerifyTOC / SkipVerify / layer Verify / SkipVerify / prefetch (readAndCache, Cache) /
// OpenFile.ReadAt, records what the metadata store delivered for every chunk fetch (the adversary's bytes),
// prints history + observed outputs as Coq terms for Model/Verify.v, and evaluates the property's clauses
// directly on the observations (model-free oracle).
// Package c01 is the C01 harness as a library: cmd/verify runs it over the memory metadata store,
// harness/cmdmod/cmd/verifydb over the db (bbolt) metadata store.
package c01

import (
	"archive/tar"
	"bytes"
	"compress/gzip"
	"context"
	"encoding/json"
	"fmt"
	"io"
	"os"
	"runtime"
	"sort"
	"strings"
	"sync"

	"github.com/containerd/containerd/v2/pkg/reference"
	"github.com/containerd/stargz-snapshotter/cache"
	"github.com/containerd/stargz-snapshotter/estargz"
	"github.com/containerd/stargz-snapshotter/estargz/zstdchunked"
	"github.com/containerd/stargz-snapshotter/fs/layer"
	"github.com/containerd/stargz-snapshotter/fs/reader"
	"github.com/containerd/stargz-snapshotter/fs/remote"
	"github.com/containerd/stargz-snapshotter/fs/source"
	"github.com/containerd/stargz-snapshotter/metadata"
	"github.com/klauspost/compress/zstd"
	digest "github.com/opencontainers/go-digest"
	ocispec "github.com/opencontainers/image-spec/specs-go/v1"
	"verif/harness/hx"
)

// ---------------------------------------------------------------------------------------------
// case description (JSON, replayable)

type FileSpec struct {
	Name string `json:"name"`
	Data []byte `json:"data"`
}

type Cor struct {
	Kind string `json:"kind"` // flip zero replace swap tocreser tocdigest tocnodigest tocfield
	F    int    `json:"f"`
	I    int    `json:"i"`
	F2   int    `json:"f2,omitempty"`
	I2   int    `json:"i2,omitempty"`
	Pos  int    `json:"pos,omitempty"`
	Alt  int    `json:"alt,omitempty"`
}

type Op struct {
	Op  string `json:"op"` // vtoc skip lverify lskip pf cache read probe
	D   string `json:"d,omitempty"`
	F   int    `json:"f"`
	I   int    `json:"i,omitempty"`
	Off int64  `json:"off,omitempty"`
	Len int64  `json:"len,omitempty"`
}

type Case struct {
	Comp       string     `json:"comp"` // gzip | zstd
	ChunkSize  int        `json:"chunk_size"`
	MinChunk   int        `json:"min_chunk"`
	DirCache   bool       `json:"dir_cache,omitempty"`   // directory chunk cache (2-entry memory LRU, SyncAdd) instead of the memory cache
	StartClean bool       `json:"start_clean,omitempty"` // the registry first serves the unaltered blob; "switch" ops toggle to the altered one and back
	Direct     bool       `json:"direct,omitempty"`      // directory cache in direct mode (what FUSE passthrough requires): enables "pass" ops
	Files      []FileSpec `json:"files"`
	Cors       []Cor      `json:"cors"`
	Ops        []Op       `json:"ops"`
}

// ---------------------------------------------------------------------------------------------
// blob construction and corruption

func buildTar(files []FileSpec) []byte {
	var buf bytes.Buffer
	tw := tar.NewWriter(&buf)
	dirs := map[string]bool{}
	for _, f := range files {
		if i := strings.LastIndex(f.Name, "/"); i >= 0 {
			d := f.Name[:i+1]
			if !dirs[d] {
				dirs[d] = true
				tw.WriteHeader(&tar.Header{Typeflag: tar.TypeDir, Name: d, Mode: 0755})
			}
		}
		tw.WriteHeader(&tar.Header{Typeflag: tar.TypeReg, Name: f.Name, Mode: 0644, Size: int64(len(f.Data))})
		tw.Write(f.Data)
	}
	tw.Close()
	return buf.Bytes()
}

type zstdCompression struct {
	*zstdchunked.Compressor
	*zstdchunked.Decompressor
}

func decompressors(comp string) []estargz.Decompressor {
	if comp == "zstd" {
		return []estargz.Decompressor{new(zstdchunked.Decompressor)}
	}
	return nil
}

func buildBlob(c Case) ([]byte, digest.Digest, error) {
	t := buildTar(c.Files)
	opts := []estargz.Option{estargz.WithChunkSize(c.ChunkSize), estargz.WithMinChunkSize(c.MinChunk)}
	if c.Comp == "zstd" {
		opts = append(opts, estargz.WithCompression(&zstdCompression{&zstdchunked.Compressor{CompressionLevel: zstd.SpeedDefault}, &zstdchunked.Decompressor{}}))
	}
	b, err := estargz.Build(io.NewSectionReader(bytes.NewReader(t), 0, int64(len(t))), opts...)
	if err != nil {
		return nil, "", err
	}
	data, err := io.ReadAll(b)
	if err != nil {
		return nil, "", err
	}
	b.Close()
	return data, b.TOCDigest(), nil
}

// chunkInfo is one chunk of one file as recorded in a TOC (read through the estargz package).
type chunkInfo struct {
	Off, Size     int64 // uncompressed
	COff, CNext   int64 // compressed member range
	Dig, PDig     string
	DigID, PDigID int // small ids used in the Coq case (0 = unparsable)
}

func openEstargz(blob []byte, comp string) (*estargz.Reader, error) {
	sr := io.NewSectionReader(bytes.NewReader(blob), 0, int64(len(blob)))
	return estargz.Open(sr, estargz.WithDecompressors(decompressors(comp)...))
}

func chunkTable(er *estargz.Reader, name string) []chunkInfo {
	var out []chunkInfo
	e, ok := er.Lookup(name)
	if !ok {
		return nil
	}
	var off int64
	for i := 0; i < 4096; i++ {
		ce, ok := er.ChunkEntryForOffset(name, off)
		if !ok {
			break
		}
		d := ce.ChunkDigest
		if d == "" && theStoreName != "db" {
			d = ce.Digest // memory store: the file digest stands in for a missing chunk digest (db: empty, C05-F53)
		}
		out = append(out, chunkInfo{Off: ce.ChunkOffset, Size: ce.ChunkSize, COff: ce.Offset, CNext: ce.NextOffset(), Dig: d, PDig: ce.ChunkDigest})
		if ce.ChunkSize <= 0 {
			break
		}
		off = ce.ChunkOffset + ce.ChunkSize
		if off >= e.Size {
			break
		}
	}
	return out
}

func gzipTOCOffset(blob []byte) (int64, bool) {
	if len(blob) < estargz.FooterSize {
		return 0, false
	}
	_, tocOff, _, err := new(estargz.GzipDecompressor).ParseFooter(blob[len(blob)-estargz.FooterSize:])
	if err != nil || tocOff <= 0 || tocOff > int64(len(blob)) {
		return 0, false
	}
	return tocOff, true
}

// extractGzipTOC reads the TOC JSON out of a gzip eStargz blob without the estargz package.
func extractGzipTOC(blob []byte) ([]byte, int64, bool) {
	tocOff, ok := gzipTOCOffset(blob)
	if !ok {
		return nil, 0, false
	}
	zr, err := gzip.NewReader(bytes.NewReader(blob[tocOff:]))
	if err != nil {
		return nil, 0, false
	}
	zr.Multistream(false)
	tr := tar.NewReader(zr)
	if _, err := tr.Next(); err != nil {
		return nil, 0, false
	}
	js, err := io.ReadAll(tr)
	if err != nil {
		return nil, 0, false
	}
	return js, tocOff, true
}

func withTOC(blob []byte, tocOff int64, js []byte) []byte {
	var buf bytes.Buffer
	buf.Write(blob[:tocOff])
	gz, _ := gzip.NewWriterLevel(&buf, gzip.BestCompression)
	tw := tar.NewWriter(gz)
	tw.WriteHeader(&tar.Header{Typeflag: tar.TypeReg, Name: estargz.TOCTarName, Size: int64(len(js))})
	tw.Write(js)
	tw.Close()
	gz.Close()
	buf.Write(blob[len(blob)-estargz.FooterSize:])
	return buf.Bytes()
}

// gzipMemberOfSize compresses payload into one gzip member of exactly size bytes (padding through the
// header's Extra field), or returns nil.
func gzipMemberOfSize(payload []byte, size int) []byte {
	for _, lvl := range []int{gzip.BestCompression, gzip.DefaultCompression, gzip.BestSpeed, gzip.NoCompression} {
		var b bytes.Buffer
		w, _ := gzip.NewWriterLevel(&b, lvl)
		w.Write(payload)
		w.Close()
		if b.Len() == size {
			return b.Bytes()
		}
		if pad := size - b.Len(); pad >= 2 && pad < 60000 {
			var b2 bytes.Buffer
			w, _ := gzip.NewWriterLevel(&b2, lvl)
			w.Header.Extra = make([]byte, pad-2)
			w.Write(payload)
			w.Close()
			if b2.Len() == size {
				return b2.Bytes()
			}
		}
	}
	return nil
}

func altPayload(orig []byte, alt int) []byte {
	p := append([]byte{}, orig...)
	if len(p) == 0 {
		return p
	}
	switch alt % 3 {
	case 0:
		p[alt%len(p)] ^= 0x20
	case 1:
		for i := range p {
			p[i] = 'Z'
		}
	default:
		for i := range p {
			p[i] = p[len(p)-1-i] + 1
		}
	}
	if bytes.Equal(p, orig) {
		p[0] ^= 1
	}
	return p
}

// applyCors returns the corrupted blob and, per corruption, whether it could be applied.
func applyCors(c Case, blob []byte, tabs [][]chunkInfo) ([]byte, []bool) {
	out := append([]byte{}, blob...)
	applied := make([]bool, len(c.Cors))
	tocOff, _, err := estargz.OpenFooter(io.NewSectionReader(bytes.NewReader(blob), 0, int64(len(blob))))
	if err != nil || tocOff <= 0 {
		tocOff = int64(len(blob))
	}
	pick := func(f, i int) (chunkInfo, bool) {
		if f < 0 || f >= len(tabs) || i < 0 || i >= len(tabs[f]) {
			return chunkInfo{}, false
		}
		ci := tabs[f][i]
		ci.CNext = min(ci.CNext, tocOff) // payload members only; the TOC is altered by the toc* kinds
		if ci.COff <= 0 || ci.CNext <= ci.COff || ci.CNext > int64(len(blob)) {
			return chunkInfo{}, false
		}
		return ci, true
	}
	for n, co := range c.Cors {
		switch co.Kind {
		case "flip":
			if ci, ok := pick(co.F, co.I); ok {
				nbits := int(ci.CNext-ci.COff) * 8
				bit := co.Pos % nbits
				out[int(ci.COff)+bit/8] ^= 1 << uint(bit%8)
				applied[n] = true
			}
		case "zero":
			if ci, ok := pick(co.F, co.I); ok {
				l := int(ci.CNext - ci.COff)
				from := co.Pos % l
				for j := from; j < l; j++ {
					out[int(ci.COff)+j] = 0
				}
				applied[n] = true
			}
		case "replace":
			if c.Comp != "gzip" || c.MinChunk != 0 {
				break
			}
			if ci, ok := pick(co.F, co.I); ok {
				orig := c.Files[co.F].Data[ci.Off : ci.Off+ci.Size]
				for try := 0; try < 3 && !applied[n]; try++ {
					if m := gzipMemberOfSize(altPayload(orig, co.Alt+try), int(ci.CNext-ci.COff)); m != nil {
						copy(out[ci.COff:], m)
						applied[n] = true
					}
				}
			}
		case "swap":
			a, ok1 := pick(co.F, co.I)
			b, ok2 := pick(co.F2, co.I2)
			if !(ok1 && ok2 && a.COff != b.COff && a.CNext-a.COff == b.CNext-b.COff) {
				// the chosen pair cannot be swapped in place: take the first pair of members of equal length
				ok1 = false
				for f1 := range tabs {
					for i1 := range tabs[f1] {
						for f2 := range tabs {
							for i2 := range tabs[f2] {
								x, okx := pick(f1, i1)
								y, oky := pick(f2, i2)
								if !ok1 && okx && oky && x.COff < y.COff && x.CNext-x.COff == y.CNext-y.COff &&
									!bytes.Equal(blob[x.COff:x.CNext], blob[y.COff:y.CNext]) {
									a, b, ok1, ok2 = x, y, true, true
								}
							}
						}
					}
				}
			}
			if ok1 && ok2 && a.COff != b.COff && a.CNext-a.COff == b.CNext-b.COff {
				tmp := append([]byte{}, out[a.COff:a.CNext]...)
				copy(out[a.COff:a.CNext], out[b.COff:b.CNext])
				copy(out[b.COff:b.CNext], tmp)
				applied[n] = true
			}
		case "toctrail":
			// bytes after the JSON value of the TOC file: the digest is defined over the whole file (C05-F24)
			if c.Comp != "gzip" {
				break
			}
			js, tocOff, ok := extractGzipTOC(out)
			if !ok {
				break
			}
			trail := bytes.Repeat([]byte(" \n"), 300+co.Alt%200)
			if co.Alt%2 == 1 {
				trail = append(trail, []byte("{\"version\":1,\"entries\":[]} trailing")...)
			}
			out = withTOC(out, tocOff, append(append([]byte{}, js...), trail...))
			applied[n] = true
		case "tocreser", "tocdigest", "tocnodigest", "tocfield":
			if c.Comp != "gzip" {
				break
			}
			js, tocOff, ok := extractGzipTOC(out)
			if !ok {
				break
			}
			var jt estargz.JTOC
			if json.Unmarshal(js, &jt) != nil {
				break
			}
			// the co.I-th data entry of file co.F
			var target *estargz.TOCEntry
			if co.F >= 0 && co.F < len(c.Files) {
				k := 0
				for _, e := range jt.Entries {
					if (e.Type == "reg" || e.Type == "chunk") && e.Name == c.Files[co.F].Name {
						if k == co.I {
							target = e
						}
						k++
					}
				}
			}
			switch co.Kind {
			case "tocreser":
			case "tocdigest":
				if target == nil {
					continue
				}
				// the digest of what the (possibly replaced) member now decompresses to, or of other bytes
				ci, ok := pick(co.F, co.I)
				if !ok {
					continue
				}
				orig := c.Files[co.F].Data[ci.Off : ci.Off+ci.Size]
				target.ChunkDigest = digest.FromBytes(altPayload(orig, co.Alt)).String()
			case "tocnodigest":
				if target == nil {
					continue
				}
				target.ChunkDigest = ""
				target.Digest = ""
			case "tocfield":
				if target == nil {
					continue
				}
				target.Mode ^= 0o111
				target.UID = 4242
			}
			var njs []byte
			if co.Kind == "tocreser" {
				njs, _ = json.Marshal(&jt)
			} else {
				njs, _ = json.MarshalIndent(&jt, "", "\t")
			}
			out = withTOC(out, tocOff, njs)
			applied[n] = true
		}
	}
	return out, applied
}

// ---------------------------------------------------------------------------------------------
// recording metadata reader: what the metadata store delivered for each File.ReadAt (the adversary's bytes)

type preEv struct {
	ID        uint32
	Off, Size int64
	Dig       string
	Called    bool // the callee read from the reader at all
	Data      []byte
	Full      bool
}

type fetchRec struct {
	ID   uint32
	Off  int64
	Pre  []preEv
	N    int
	Err  bool // error other than io.EOF
	IP   []byte
	Want int
}

type recorder struct {
	mu      sync.Mutex
	cur     *fetchRec
	fetches []fetchRec
}

func (r *recorder) take() []fetchRec {
	r.mu.Lock()
	defer r.mu.Unlock()
	f := r.fetches
	r.fetches = nil
	return f
}

func (r *recorder) setCur(fr *fetchRec) *fetchRec {
	r.mu.Lock()
	defer r.mu.Unlock()
	prev := r.cur
	r.cur = fr
	return prev
}

type recReader struct {
	metadata.Reader
	rec *recorder
}

type teeRec struct {
	r      io.Reader
	buf    []byte
	called bool
}

func (t *teeRec) Read(p []byte) (int, error) {
	t.called = true
	n, err := t.r.Read(p)
	t.buf = append(t.buf, p[:n]...)
	return n, err
}

type recFile struct {
	metadata.File
	id  uint32
	rec *recorder
}

func (f *recFile) ReadAt(p []byte, off int64) (int, error) {
	fr := &fetchRec{ID: f.id, Off: off, Want: len(p)}
	prev := f.rec.setCur(fr)
	n, err := f.File.ReadAt(p, off)
	f.rec.setCur(prev)
	fr.N = n
	fr.Err = err != nil && err != io.EOF
	fr.IP = append([]byte{}, p...)
	f.rec.mu.Lock()
	f.rec.fetches = append(f.rec.fetches, *fr)
	f.rec.mu.Unlock()
	return n, err
}

func (r *recReader) OpenFile(id uint32) (metadata.File, error) {
	f, err := r.Reader.OpenFile(id)
	if err != nil {
		return nil, err
	}
	return &recFile{f, id, r.rec}, nil
}

func (r *recReader) OpenFileWithPreReader(id uint32, preRead func(id uint32, chunkOffset, chunkSize int64, chunkDigest string, r io.Reader) error) (metadata.File, error) {
	f, err := r.Reader.OpenFileWithPreReader(id, func(nid uint32, off, size int64, dg string, rd io.Reader) error {
		t := &teeRec{r: rd}
		err := preRead(nid, off, size, dg, t)
		r.rec.mu.Lock()
		if r.rec.cur != nil {
			r.rec.cur.Pre = append(r.rec.cur.Pre, preEv{ID: nid, Off: off, Size: size, Dig: dg, Called: t.called, Data: t.buf, Full: int64(len(t.buf)) == size})
		}
		r.rec.mu.Unlock()
		return err
	})
	if err != nil {
		return nil, err
	}
	return &recFile{f, id, r.rec}, nil
}

func (r *recReader) Clone(sr *io.SectionReader) (metadata.Reader, error) {
	c, err := r.Reader.Clone(sr)
	if err != nil {
		return nil, err
	}
	return &recReader{c, r.rec}, nil
}

// ---------------------------------------------------------------------------------------------
// gated chunk cache: lets the harness stop one prefetch goroutine at every interaction of readAndCache with its
// cache writer - before cache.Add, at the first Write (the chunk is being copied: after the verifier was looked up,
// before the digest comparison), before Commit, before Abort - run other calls, and resume it.

type gate struct {
	at      string // "add" | "write" | "commit" | "abort"
	hit     bool   // the gate was reached (stop points are one-shot)
	reached chan struct{}
	release chan struct{}
}

type gateCache struct {
	cache.BlobCache
	mu    sync.Mutex
	gates map[string]*gate // one-shot, by cache key
}

func (g *gateCache) arm(key, at string) *gate {
	gt := &gate{at: at, reached: make(chan struct{}), release: make(chan struct{})}
	g.mu.Lock()
	g.gates[key] = gt
	g.mu.Unlock()
	return gt
}

func (g *gateCache) disarm(key string) {
	g.mu.Lock()
	delete(g.gates, key)
	g.mu.Unlock()
}

func (g *gateCache) Add(key string, opts ...cache.Option) (cache.Writer, error) {
	g.mu.Lock()
	gt := g.gates[key]
	delete(g.gates, key)
	g.mu.Unlock()
	if gt != nil && gt.at == "add" {
		close(gt.reached)
		<-gt.release
		gt = nil
	}
	w, err := g.BlobCache.Add(key, opts...)
	if err != nil || gt == nil {
		return w, err
	}
	return &gateWriter{w, gt}, nil
}

type gateWriter struct {
	cache.Writer
	gt *gate
}

func (w *gateWriter) stop(at string) {
	if w.gt.at == at && !w.gt.hit {
		w.gt.hit = true
		close(w.gt.reached)
		<-w.gt.release
	}
}

func (w *gateWriter) Write(p []byte) (int, error) {
	w.stop("write")
	return w.Writer.Write(p)
}

func (w *gateWriter) Commit() error {
	w.stop("commit")
	return w.Writer.Commit()
}

func (w *gateWriter) Abort() error {
	w.stop("abort")
	return w.Writer.Abort()
}

// one prefetch goroutine stopped at a gate
type inflight struct {
	f, i    int
	gt      *gate
	done    chan error
	data    []byte // bytes it fetched
	checked bool   // its verification step (PfCheck) has run and let it pass: a Commit is outstanding
	aborted bool   // its verification step has refused: only the Abort is outstanding
	pendID  int
	// an on-demand read (file.ReadAt of a range inside one chunk) stopped inside cacheData
	isRead   bool
	rOff     int64
	rLen     int64
	rN       int
	rData    []byte
	verified bool            // the layer was verified when the read started
	before   map[string]bool // cache keys before the read (unverified reads only)
}

// switchRA is what the registry serves for the layer blob right now (blob Refresh / mirror change): one of two byte strings.
type switchRA struct {
	blobs [2][]byte
	cur   int
}

func (s *switchRA) ReadAt(p []byte, off int64) (int, error) {
	return bytes.NewReader(s.blobs[s.cur]).ReadAt(p, off)
}

// tocFileDigest: sha256 of the whole TOC file of a blob (gzip: extracted without the estargz package).
func tocFileDigest(blob []byte, comp string) (digest.Digest, bool) {
	if comp == "gzip" {
		if js, _, ok := extractGzipTOC(blob); ok {
			return digest.FromBytes(js), true
		}
		return "", false
	}
	er, err := openEstargz(blob, comp)
	if err != nil {
		return "", false
	}
	return er.TOCDigest(), true
}

// ---------------------------------------------------------------------------------------------
// a remote.Blob over the in-memory blob (layer level)

type memBlob struct{ b []byte }

func (m *memBlob) Check() error       { return nil }
func (m *memBlob) Size() int64        { return int64(len(m.b)) }
func (m *memBlob) FetchedSize() int64 { return int64(len(m.b)) }
func (m *memBlob) ReadAt(p []byte, off int64, _ ...remote.Option) (int, error) {
	return bytes.NewReader(m.b).ReadAt(p, off)
}
func (m *memBlob) Cache(int64, int64, ...remote.Option) error { return nil }
func (m *memBlob) Refresh(context.Context, source.RegistryHosts, reference.Spec, ocispec.Descriptor) error {
	return nil
}
func (m *memBlob) Close() error { return nil }

// ---------------------------------------------------------------------------------------------
// execution

// observed output of one op
type Out struct {
	Kind string `json:"kind"` // o | r | b
	Res  string `json:"res"`  // ok err none panic
	Data []byte `json:"data,omitempty"`
}

type result struct {
	opened   bool
	coq      string
	outs     []Out
	problems []problem
	stats    map[string]int
	nontriv  bool
}

type problem struct {
	sig  string // "" = violation
	what string
}

type world struct {
	c                             Case
	files                         []uint32      // metadata ids of c.Files
	tabs                          [][]chunkInfo // TOC of the blob actually opened
	origTabs                      [][]chunkInfo
	digIDs                        map[string]int
	rec                           *recorder
	mr                            metadata.Reader
	mc                            *cache.MemoryCache // nil with the directory cache
	bc                            cache.BlobCache
	sw                            *switchRA
	canSwitch                     bool
	cleanBlob, badBlob, otherBlob []byte
	streamDigest                  digest.Digest
	gc                            *gateCache
	flights                       []*inflight // prefetch goroutines stopped at a gate, in start order
	pend                          []*inflight // those whose verification step is done and whose Commit is outstanding (model: s_pend)
	vr                            *reader.VerifiableReader
	l                             layer.Layer
	rd                            reader.Reader
	oracleMR                      metadata.Reader

	dOrig, dActual digest.Digest

	// model-free bookkeeping
	decided       bool
	verifiedWith  string          // digest a verification succeeded with
	skipRead      bool            // an on-demand read ran while the reader was not in verify mode
	skipCached    map[string]bool // cache keys written by such reads
	skipContent   map[string]bool // chunk key + hash of the chunk bytes such reads cached (directly or inside a merged entry)
	hashed        map[string]int  // bytes (as string) -> digest id, for the hash table of the case
	problems      []problem
	stats         map[string]int
	sawBadServed  bool
	sawErr        bool
	sawVerifiedRd bool
}

func (w *world) digID(d string) int {
	if d == "" {
		return 0
	}
	if _, err := digest.Parse(d); err != nil {
		return 0
	}
	if id, ok := w.digIDs[d]; ok {
		return id
	}
	id := len(w.digIDs) + 1
	w.digIDs[d] = id
	return id
}

func (w *world) note(b []byte) {
	d := digest.FromBytes(b).String()
	if id, ok := w.digIDs[d]; ok {
		w.hashed[string(b)] = id
	}
}

func lookupID(mr metadata.Reader, name string) (uint32, bool) {
	id := mr.RootID()
	for _, part := range strings.Split(name, "/") {
		nid, _, err := mr.GetChild(id, part)
		if err != nil {
			return 0, false
		}
		id = nid
	}
	return id, true
}

func (w *world) findChunk(id uint32, off, size int64) (int, int, bool) {
	for f, fid := range w.files {
		if fid != id {
			continue
		}
		for i, ci := range w.tabs[f] {
			if ci.Off == off && ci.Size == size {
				return f, i, true
			}
		}
	}
	return 0, 0, false
}

func coqBytes(b []byte) string { return hx.CoqBytes(b) }

func (w *world) coqFetch(fr fetchRec) string {
	pres := []string{}
	for _, p := range fr.Pre {
		f, i, ok := w.findChunk(p.ID, p.Off, p.Size)
		if !ok {
			w.stats["pre.unknown"]++
			continue
		}
		// the digest handed to the pre-read callback must be the one recorded in the TOC
		if p.Dig != w.tabs[f][i].PDig {
			w.problems = append(w.problems, problem{"", fmt.Sprintf("pre-read callback for file %d chunk %d got digest %q, TOC records %q", f, i, p.Dig, w.tabs[f][i].PDig)})
		}
		pv := "PvNone"
		if p.Called {
			if p.Full {
				w.note(p.Data)
				pv = "(PvBytes " + coqBytes(p.Data) + ")"
			} else {
				pv = "PvErr"
			}
		}
		pres = append(pres, fmt.Sprintf("(%d%%N, %d%%nat, %s)", w.files[f], i, pv))
		w.stats["fetch.pre"]++
	}
	main := "MErr"
	if !fr.Err {
		w.note(fr.IP)
		main = fmt.Sprintf("(MOk %s %s)", hx.CoqZ(int64(fr.N)), coqBytes(fr.IP))
		if fr.N < fr.Want {
			w.stats["fetch.short"]++
		}
	} else {
		w.stats["fetch.err"]++
	}
	return fmt.Sprintf("(mkFetch %s %s)", hx.CoqList(pres), main)
}

func (w *world) cacheKey(f, i int) string {
	ci := w.tabs[f][i]
	return reader.VerifGenIDC01(w.files[f], ci.Off, ci.Size)
}

func (w *world) cachedKey(key string) ([]byte, bool) {
	if w.mc != nil {
		b, ok := w.mc.Membuf[key]
		if !ok {
			return nil, false
		}
		return append([]byte{}, b.Bytes()...), true
	}
	r, err := w.bc.Get(key)
	if err != nil {
		return nil, false
	}
	defer r.Close()
	b, err := io.ReadAll(io.NewSectionReader(r, 0, 1<<20))
	if err != nil {
		return nil, false
	}
	return b, true
}

func (w *world) cachedBytes(f, i int) ([]byte, bool) { return w.cachedKey(w.cacheKey(f, i)) }

// cachedKeys: which chunk keys are in the cache now.
func (w *world) wholeKey(f int) (string, int64) {
	var total int64
	for _, ci := range w.tabs[f] {
		total += ci.Size
	}
	return reader.VerifGenIDC01(w.files[f], 0, total), total
}

func (w *world) cachedKeys() map[string]bool {
	m := map[string]bool{}
	for f := range w.tabs {
		if k, _ := w.wholeKey(f); true {
			if _, ok := w.cachedKey(k); ok {
				m[k] = true
			}
		}
		for i := range w.tabs[f] {
			k := w.cacheKey(f, i)
			if _, ok := w.cachedKey(k); ok {
				m[k] = true
			}
		}
	}
	return m
}

// noteSkipCached records what an unverified read / passthrough open added to the cache: the keys, and per chunk the
// content (a later merge in a verified layer copies such chunks into a new whole-file entry: same residue class).
func (w *world) noteSkipCached(before map[string]bool) {
	for k := range w.cachedKeys() {
		if !before[k] {
			w.skipCached[k] = true
		}
	}
	for f := range w.tabs {
		for i, ci := range w.tabs[f] {
			k := w.cacheKey(f, i)
			if b, ok := w.cachedKey(k); ok && w.skipCached[k] {
				w.skipContent[k+":"+digest.FromBytes(b).String()] = true
			}
			if wk, total := w.wholeKey(f); w.skipCached[wk] {
				if b, ok := w.cachedKey(wk); ok && int64(len(b)) == total {
					w.skipContent[k+":"+digest.FromBytes(b[ci.Off:ci.Off+ci.Size]).String()] = true
				}
			}
		}
	}
}

// skipResidue: is this chunk content one that an unverified read put into the cache?
func (w *world) skipResidue(f, i int, piece []byte) bool {
	return w.skipContent[w.cacheKey(f, i)+":"+digest.FromBytes(piece).String()]
}

func chunkGood(ci chunkInfo, b []byte) bool {
	d := digest.FromBytes(b).String()
	return (ci.Dig != "" && d == ci.Dig) || (ci.PDig != "" && d == ci.PDig)
}

// scanCache: clause "altered bytes never remain cached where a later read would serve them without verification".
func (w *world) scanCache(when string) {
	if w.verifiedWith == "" {
		return
	}
	for f := range w.tabs {
		for i, ci := range w.tabs[f] {
			b, ok := w.cachedBytes(f, i)
			if !ok || chunkGood(ci, b) {
				continue
			}
			if w.skipCached[w.cacheKey(f, i)] {
				w.problems = append(w.problems, problem{"C01-skip-read-residue", fmt.Sprintf("%s: chunk %d of file %d cached by an unverified read is still cached in a verified layer and does not match its recorded digest", when, i, f)})
			} else {
				w.problems = append(w.problems, problem{"", fmt.Sprintf("%s: verified layer caches bytes of file %d chunk %d that do not match the recorded chunk digest", when, f, i)})
			}
		}
		// the whole-file entry of the passthrough merge: a concatenation of chunks that match their digests
		if len(w.tabs[f]) < 2 {
			continue
		}
		k, total := w.wholeKey(f)
		b, ok := w.cachedKey(k)
		if !ok {
			continue
		}
		good := int64(len(b)) == total
		residue := good // every chunk of the entry that does not match its digest was cached by an unverified read
		for i, ci := range w.tabs[f] {
			if int64(len(b)) == total && !chunkGood(ci, b[ci.Off:ci.Off+ci.Size]) {
				good = false
				if !w.skipResidue(f, i, b[ci.Off:ci.Off+ci.Size]) {
					residue = false
				}
			}
		}
		if good {
			continue
		}
		if w.skipCached[k] || residue {
			w.problems = append(w.problems, problem{"C01-skip-read-residue", fmt.Sprintf("%s: merged entry of file %d made of chunks that unverified reads cached is still cached in a verified layer and contains a chunk that does not match its recorded digest", when, f)})
		} else {
			w.problems = append(w.problems, problem{"", fmt.Sprintf("%s: verified layer caches a merged whole-file entry of file %d containing bytes that do not match the recorded chunk digests", when, f)})
		}
	}
}

func (w *world) digestFor(sel string) digest.Digest {
	switch sel {
	case "orig":
		return w.dOrig
	case "bad":
		return digest.FromString("some other table of contents")
	}
	return w.dActual
}

// resume lets the n-th in-flight prefetch run to completion and reports the sub-steps it performed.
func (w *world) resume(n int, emit func(string, Out)) {
	fl := w.flights[n]
	w.flights = append(w.flights[:n], w.flights[n+1:]...)
	close(fl.gt.release)
	err := <-fl.done
	w.stats["op.pfresume"]++
	if fl.aborted {
		// only cache writer Abort + return were outstanding: no sub-step of the model
		if err == nil {
			w.problems = append(w.problems, problem{"", "a prefetch stopped before Abort finished without error"})
		}
		return
	}
	if !fl.checked {
		// verification step now, then (if it passed) the commit
		if err != nil {
			w.stats["result.pfresume.aborted"]++
			emit(fmt.Sprintf("HAtom (PfCheck false %d%%N %d%%nat %s)", w.files[fl.f], fl.i, coqBytes(fl.data)), Out{Kind: "o", Res: "err"})
			return
		}
		emit(fmt.Sprintf("HAtom (PfCheck false %d%%N %d%%nat %s)", w.files[fl.f], fl.i, coqBytes(fl.data)), Out{Kind: "o", Res: "ok"})
		emit(fmt.Sprintf("HAtom (Commit %d%%nat)", len(w.pend)), Out{Kind: "o", Res: "none"})
		return
	}
	idx := 0
	for j, p := range w.pend {
		if p == fl {
			idx = j
		}
	}
	w.pend = append(w.pend[:idx], w.pend[idx+1:]...)
	if err != nil && !fl.isRead {
		w.problems = append(w.problems, problem{"", "Commit of a prefetched chunk failed"})
	}
	emit(fmt.Sprintf("HAtom (Commit %d%%nat)", idx), Out{Kind: "o", Res: "none"})
	if fl.isRead {
		w.stats["op.rdresume"]++
		if !fl.verified {
			w.noteSkipCached(fl.before)
		}
		if err != nil {
			w.stats["result.rdresume.err"]++
			if fl.verified {
				w.problems = append(w.problems, problem{"", "an on-demand read whose chunk had passed verification failed afterwards"})
			}
			return
		}
		w.checkReadBytes(fl.f, fl.rOff, fl.rLen, fl.rData[:fl.rN], fl.verified, "concurrent ")
	}
}

// checkReadBytes: clause "a successful read of a layer verified against the trusted digest returns the original bytes".
func (w *world) checkReadBytes(f int, off, ln int64, got []byte, verifiedMode bool, what string) {
	if !verifiedMode || w.verifiedWith != w.dOrig.String() {
		return
	}
	data := w.c.Files[f].Data
	lo := min(off, int64(len(data)))
	hi := min(off+ln, int64(len(data)))
	if bytes.Equal(got, data[lo:hi]) {
		return
	}
	residue := w.skipRead && len(got) == int(hi-lo)
	for i, ci := range w.tabs[f] {
		if ci.Off+ci.Size <= lo || ci.Off >= hi {
			continue
		}
		if b, ok := w.cachedBytes(f, i); ok && !chunkGood(ci, b) && !w.skipCached[w.cacheKey(f, i)] {
			residue = false
		}
	}
	if residue {
		w.problems = append(w.problems, problem{"C01-skip-read-residue", fmt.Sprintf("%sread of file %d [%d,+%d) in a layer verified against the trusted TOC digest returned altered bytes left in the cache by an earlier unverified read", what, f, off, ln)})
	} else {
		w.problems = append(w.problems, problem{"", fmt.Sprintf("%sread of file %d [%d,+%d) in a layer verified against the trusted TOC digest returned bytes that differ from the original content", what, f, off, ln)})
	}
	w.sawBadServed = true
}

// prefetchOne does what cacheWithReader does for one chunk, through the real readAndCache.
func (w *world) prefetchOne(f, i int) error { return w.prefetchOneWith(w.vr.Metadata(), f, i) }

func (w *world) prefetchOneWith(mr metadata.Reader, f, i int) error {
	id := w.files[f]
	fr, err := mr.OpenFileWithPreReader(id, func(nid uint32, off, size int64, dg string, r io.Reader) error {
		return w.vr.VerifReadAndCacheC01(nid, r, off, size, dg)
	})
	if err != nil {
		return err
	}
	off, size, dg, ok := fr.ChunkEntryForOffset(w.tabs[f][i].Off)
	if !ok {
		return fmt.Errorf("no chunk")
	}
	return w.vr.VerifReadAndCacheC01(id, io.NewSectionReader(fr, off, size), off, size, dg)
}

// chunkTruth reads one chunk of the opened blob directly through a second metadata reader (no fs/reader involved).
func (w *world) chunkTruth(f, i int) (data []byte, readOK bool, good bool) {
	return w.chunkTruthWith(w.oracleMR, f, i)
}

func (w *world) chunkTruthWith(omr metadata.Reader, f, i int) (data []byte, readOK bool, good bool) {
	ci := w.tabs[f][i]
	fr, err := omr.OpenFile(w.files[f])
	if err != nil {
		return nil, false, false
	}
	buf := make([]byte, ci.Size)
	n, err := fr.ReadAt(buf, ci.Off)
	if int64(n) != ci.Size || (err != nil && err != io.EOF) {
		return nil, false, false
	}
	return buf, true, chunkGood(ci, buf)
}

func outTerm(o Out) string {
	switch o.Kind {
	case "o":
		return "HO " + map[string]string{"ok": "OOk", "err": "OErr", "none": "ONone"}[o.Res]
	case "r":
		switch o.Res {
		case "ok":
			return "HR (ROk " + coqBytes(o.Data) + ")"
		case "panic":
			return "HR RPanic"
		}
		return "HR RErr"
	}
	if o.Res == "ok" {
		return "HB (Some " + coqBytes(o.Data) + ")"
	}
	return "HB None"
}

func errRes(err error) string {
	if err != nil {
		return "err"
	}
	return "ok"
}

func run(c Case) (res result) {
	res.stats = map[string]int{}
	blob, dOrig, err := buildBlob(c)
	if err != nil {
		res.stats["build.fail"]++
		return
	}
	erOrig, err := openEstargz(blob, c.Comp)
	if err != nil {
		res.stats["build.fail"]++
		return
	}
	w := &world{c: c, digIDs: map[string]int{}, rec: &recorder{}, skipCached: map[string]bool{}, skipContent: map[string]bool{}, hashed: map[string]int{}, stats: res.stats, dOrig: dOrig}
	for _, f := range c.Files {
		w.origTabs = append(w.origTabs, chunkTable(erOrig, f.Name))
	}
	bad, applied := applyCors(c, blob, w.origTabs)
	for n, co := range c.Cors {
		if applied[n] {
			res.stats["cor."+co.Kind]++
		} else {
			res.stats["cor.notapplied."+co.Kind]++
		}
	}
	if len(c.Cors) == 0 {
		res.stats["cor.none"]++
	}
	res.stats["comp."+c.Comp]++
	if c.MinChunk > 0 {
		res.stats["minchunk"]++
	}

	w.cleanBlob, w.badBlob = blob, bad
	w.sw = &switchRA{blobs: [2][]byte{bad, blob}}
	if dc, ok1 := tocFileDigest(blob, c.Comp); ok1 {
		if db, ok2 := tocFileDigest(bad, c.Comp); ok2 && dc == db && len(blob) == len(bad) {
			w.canSwitch = true
		}
	}
	if c.StartClean && w.canSwitch {
		w.sw.cur = 1
		res.stats["start.clean"]++
	}
	open := func() (metadata.Reader, error) {
		sr := io.NewSectionReader(w.sw, 0, int64(len(bad)))
		var ds []metadata.Decompressor
		if c.Comp == "zstd" {
			ds = append(ds, new(zstdchunked.Decompressor))
		}
		return theStore(sr, metadata.WithDecompressors(ds...))
	}
	mr, err := open()
	if err != nil {
		// the mount fails: nothing can be read. Property satisfied trivially.
		res.stats["open.fail"]++
		return
	}
	w.oracleMR, err = open()
	if err != nil {
		res.stats["open.fail"]++
		return
	}
	er, err := openEstargz(bad, c.Comp)
	if err != nil {
		res.stats["open.fail"]++
		return
	}
	res.opened = true
	w.dActual = er.TOCDigest()
	streamDigest := w.dActual
	if c.Comp == "gzip" {
		// independent computation: sha256 of the whole TOC file stored in the blob (including anything after the JSON value).
		// The model's TOC digest is this value (open_layer), the implementation's answers come from its own TOCDigest().
		if js, _, ok := extractGzipTOC(bad); ok {
			streamDigest = digest.FromBytes(js)
			if streamDigest != w.dActual {
				w.problems = append(w.problems, problem{"", fmt.Sprintf("TOC digest reported by the estargz reader %s differs from sha256 of the whole stored TOC file %s", w.dActual, streamDigest)})
			}
		}
	}
	if mr.TOCDigest() != w.dActual {
		w.problems = append(w.problems, problem{"", "metadata store reports another TOC digest than the estargz reader for the same blob"})
	}
	for _, f := range c.Files {
		id, ok := lookupID(mr, f.Name)
		if !ok {
			res.stats["open.fail"]++
			res.opened = false
			return
		}
		w.files = append(w.files, id)
		tab := chunkTable(er, f.Name)
		for i := range tab {
			tab[i].DigID = w.digID(tab[i].Dig)
			tab[i].PDigID = w.digID(tab[i].PDig)
		}
		w.tabs = append(w.tabs, tab)
	}
	// files the builder adds itself (landmarks): they are cached by Cache() and can be pre-read too
	for _, name := range []string{estargz.NoPrefetchLandmark, estargz.PrefetchLandmark} {
		if id, ok := lookupID(mr, name); ok {
			tab := chunkTable(er, name)
			for i := range tab {
				tab[i].DigID = w.digID(tab[i].Dig)
				tab[i].PDigID = w.digID(tab[i].PDig)
			}
			w.files = append(w.files, id)
			w.tabs = append(w.tabs, tab)
		}
	}
	// chunk tables that are not contiguous from 0 with positive sizes (a bit flip that hit the TOC and still parsed)
	// are the business of C04 (hostile TOCs); the model's chunk lookup is only claimed for well-formed tables.
	for _, tab := range w.tabs {
		var next int64
		for _, ci := range tab {
			if ci.Off != next || ci.Size <= 0 || ci.Size > 1<<16 {
				res.stats["toc.malformed"]++
				res.opened = false
				return
			}
			next = ci.Off + ci.Size
		}
	}
	w.streamDigest = streamDigest
	tocID := w.digID(streamDigest.String())
	w.digID(w.dActual.String())
	w.digID(w.dOrig.String())
	w.digID(w.digestFor("bad").String())

	w.mr = &recReader{mr, w.rec}
	var mcache cache.BlobCache
	if c.DirCache || c.Direct {
		dir, err := os.MkdirTemp("", "c01cache")
		if err != nil {
			panic(err)
		}
		defer os.RemoveAll(dir)
		mcache, err = cache.NewDirectoryCache(dir, cache.DirectoryCacheConfig{MaxLRUCacheEntry: 2, MaxCacheFds: 2, SyncAdd: true, Direct: c.Direct})
		if err != nil {
			panic(err)
		}
		defer mcache.Close()
		res.stats["cache.dir"]++
	} else {
		mcache = cache.NewMemoryCache()
		w.mc = mcache.(*cache.MemoryCache)
		res.stats["cache.mem"]++
	}
	w.bc = mcache
	w.gc = &gateCache{BlobCache: mcache, gates: map[string]*gate{}}
	w.vr, err = reader.NewReader(w.mr, w.gc, digest.FromString("layer"))
	if err != nil {
		res.opened = false
		return
	}
	w.l = layer.VerifNewLayerC01(w.vr, &memBlob{bad}, digest.FromString("layer"))

	var hops []string
	var outs []Out
	emit := func(h string, o Out) {
		hops = append(hops, h)
		outs = append(outs, o)
	}
	validChunk := func(f, i int) bool { return f >= 0 && f < len(w.tabs) && i >= 0 && i < len(w.tabs[f]) }

	afterVerify := func(name string, d digest.Digest, err error, viaLayer bool) {
		w.decided = true
		if err == nil {
			w.stats["result."+name+".ok"]++
			if d != w.dActual {
				w.problems = append(w.problems, problem{"", fmt.Sprintf("%s(%s) succeeded but the TOC in use hashes to %s", name, d, w.dActual)})
			}
			w.verifiedWith = d.String()
			w.scanCache("after successful " + name)
		} else {
			w.stats["result."+name+".err"]++
			w.sawErr = true
		}
	}

	for _, o := range c.Ops {
		w.stats["op."+o.Op]++
		switch o.Op {
		case "vtoc":
			d := w.digestFor(o.D)
			r, err := w.vr.VerifyTOC(d)
			if err == nil {
				w.rd = r
			}
			afterVerify("VerifyTOC", d, err, false)
			emit(fmt.Sprintf("HVerifyTOC %d%%N", w.digID(d.String())), Out{Kind: "o", Res: errRes(err)})
		case "skip":
			w.rd = w.vr.SkipVerify()
			emit("HSkipVerify", Out{Kind: "o", Res: "ok"})
		case "lverify":
			d := w.digestFor(o.D)
			had := layer.VerifLayerReaderC01(w.l) != nil
			err := w.l.Verify(d)
			if r := layer.VerifLayerReaderC01(w.l); r != nil {
				w.rd = r
			}
			if had {
				w.stats["op.lverify.repeated"]++
			}
			afterVerify("layer.Verify", d, err, true)
			emit(fmt.Sprintf("HLVerify %d%%N", w.digID(d.String())), Out{Kind: "o", Res: errRes(err)})
		case "lskip":
			w.l.SkipVerify()
			if r := layer.VerifLayerReaderC01(w.l); r != nil {
				w.rd = r
			}
			emit("HLSkip", Out{Kind: "o", Res: "none"})
		case "pf":
			if !validChunk(o.F, o.I) {
				continue
			}
			w.rec.take()
			err := w.prefetchOne(o.F, o.I)
			fs := w.rec.take()
			ft := "None"
			if len(fs) > 0 {
				ft = "(Some " + w.coqFetch(fs[0]) + ")"
			}
			if len(fs) > 1 {
				w.stats["pf.multifetch"]++
			}
			if err != nil {
				w.stats["result.pf.err"]++
				w.sawErr = true
			}
			emit(fmt.Sprintf("HPrefetch %d%%N %d%%nat %s", w.files[o.F], o.I, ft), Out{Kind: "o", Res: errRes(err)})
			w.scanCache("after prefetch")
		case "cache":
			// the real Cache() is used when its outcome does not depend on goroutine scheduling: no chunk read error,
			// and (before the verification decision) or (no chunk fails verification). Otherwise the same chunks are
			// driven one by one through the real readAndCache in walk order.
			// With D = same | clean | other the call is Cache(WithReader(sr')) - what layer.backgroundFetch does - where sr'
			// serves the opened blob again, the unaltered build, or another self-consistent eStargz (other file contents).
			oracle, pmr, hop := w.oracleMR, w.vr.Metadata(), "HCache "
			var copts []reader.CacheOption
			if o.D != "" {
				var blob2 []byte
				switch o.D {
				case "same":
					blob2 = w.badBlob
				case "clean":
					blob2 = w.cleanBlob
				default:
					if w.otherBlob == nil {
						c2 := c
						c2.Files = nil
						for _, f := range c.Files {
							d := append([]byte{}, f.Data...)
							for j := range d {
								d[j] ^= 0x03
							}
							c2.Files = append(c2.Files, FileSpec{f.Name, d})
						}
						w.otherBlob, _, _ = buildBlob(c2)
					}
					blob2 = w.otherBlob
				}
				d2, ok := tocFileDigest(blob2, c.Comp)
				if blob2 == nil || !ok || len(w.flights) > 0 {
					continue
				}
				w.stats["op.cachewith."+o.D]++
				sr2 := io.NewSectionReader(bytes.NewReader(blob2), 0, int64(len(blob2)))
				copts = append(copts, reader.WithReader(sr2))
				if theStoreName != "db" {
					// the memory store's Clone reads the TOC of sr' again
					hop = fmt.Sprintf("HCacheWith %d%%N ", w.digID(d2.String()))
					if d2 != w.streamDigest {
						w.rec.take()
						err := w.vr.Cache(copts...)
						if len(w.rec.take()) > 0 {
							w.stats["cachewith.fetched.through.foreign.toc"]++
						}
						if err != nil {
							w.stats["result.cachewith.refused"]++
							w.sawErr = true
						}
						emit(hop+"[]", Out{Kind: "o", Res: errRes(err)})
						w.scanCache("after Cache(WithReader(blob with another TOC))")
						continue
					}
				}
				var err error
				if oracle, err = w.oracleMR.Clone(sr2); err != nil {
					continue
				}
				if pmr, err = w.vr.Metadata().Clone(sr2); err != nil {
					continue
				}
			}
			det := len(w.flights) == 0
			for f := range w.tabs {
				for i := range w.tabs[f] {
					_, rok, good := w.chunkTruthWith(oracle, f, i)
					if !rok || (w.decided && !good) {
						det = false
					}
				}
			}
			if det {
				w.stats["op.cache.real"]++
				w.rec.take()
				err := w.vr.Cache(copts...)
				fs := w.rec.take()
				items := []string{}
				seen := map[[2]int]bool{}
				for _, fr := range fs {
					// the main chunk of this fetch: the chunk at fr.Off of file fr.ID
					for f, fid := range w.files {
						if fid != fr.ID {
							continue
						}
						for i, ci := range w.tabs[f] {
							if ci.Off == fr.Off && !seen[[2]int{f, i}] {
								seen[[2]int{f, i}] = true
								items = append(items, fmt.Sprintf("(%d%%N, %d%%nat, Some %s)", fid, i, w.coqFetch(fr)))
							}
						}
					}
				}
				for f := range w.tabs {
					for i := range w.tabs[f] {
						if !seen[[2]int{f, i}] {
							items = append(items, fmt.Sprintf("(%d%%N, %d%%nat, None)", w.files[f], i))
						}
					}
				}
				if err != nil {
					w.stats["result.cache.err"]++
				}
				emit(hop+hx.CoqList(items), Out{Kind: "o", Res: errRes(err)})
			} else {
				w.stats["op.cache.stepwise"]++
				for f := range w.tabs {
					for i := range w.tabs[f] {
						w.rec.take()
						err := w.prefetchOneWith(pmr, f, i)
						fs := w.rec.take()
						ft := "None"
						if len(fs) > 0 {
							ft = "(Some " + w.coqFetch(fs[0]) + ")"
						}
						if err != nil {
							w.stats["result.pf.err"]++
							w.sawErr = true
						}
						emit(fmt.Sprintf("HPrefetch %d%%N %d%%nat %s", w.files[f], i, ft), Out{Kind: "o", Res: errRes(err)})
					}
				}
			}
			w.scanCache("after Cache")
		case "switch":
			// the registry / mirror now serves the other of {altered, unaltered} blob (same length, same TOC file)
			if !w.canSwitch || len(w.flights) > 0 {
				continue
			}
			w.sw.cur = 1 - w.sw.cur
			w.stats["op.switch.applied"]++
		case "evict":
			// the chunk cache drops an entry (memory cache: delete it)
			if w.mc == nil || !validChunk(o.F, o.I) || len(w.flights) > 0 {
				continue
			}
			ci := w.tabs[o.F][o.I]
			if _, ok := w.mc.Membuf[w.cacheKey(o.F, o.I)]; ok {
				w.stats["op.evict.hit"]++
			}
			delete(w.mc.Membuf, w.cacheKey(o.F, o.I))
			emit(fmt.Sprintf("HAtom (Evict (%d%%N, %s, %s))", w.files[o.F], hx.CoqZ(ci.Off), hx.CoqZ(ci.Size)), Out{Kind: "o", Res: "none"})
		case "read":
			if w.rd == nil || o.F < 0 || o.F >= len(w.files) || o.Len < 0 || o.Len > 4096 || o.Off < 0 {
				continue
			}
			verifiedMode := w.verifiedWith != ""
			before := w.cachedKeys()
			w.rec.take()
			p := make([]byte, o.Len)
			var n int
			var err error
			panicked := false
			func() {
				defer func() {
					if r := recover(); r != nil {
						panicked = true
					}
				}()
				var ra io.ReaderAt
				ra, err = w.rd.OpenFile(w.files[o.F])
				if err == nil {
					n, err = ra.ReadAt(p, o.Off)
				}
			}()
			fs := w.rec.take()
			fts := make([]string, len(fs))
			for i, fr := range fs {
				fts[i] = w.coqFetch(fr)
			}
			out := Out{Kind: "r"}
			switch {
			case panicked:
				out.Res = "panic"
				w.stats["result.read.panic"]++
			case err != nil:
				out.Res = "err"
				w.stats["result.read.err"]++
				w.sawErr = true
			default:
				out.Res = "ok"
				out.Data = append([]byte{}, p[:n]...)
				w.stats["result.read.ok"]++
				if len(fs) == 0 && n > 0 {
					w.stats["result.read.allcached"]++
				}
			}
			if !verifiedMode {
				w.skipRead = true
				w.stats["op.read.unverified"]++
				w.noteSkipCached(before)
			} else {
				w.stats["op.read.verified"]++
				w.sawVerifiedRd = true
			}
			// clause: a successful read of a layer verified against the trusted digest returns the original bytes
			if verifiedMode && out.Res == "ok" && w.verifiedWith == w.dOrig.String() {
				data := c.Files[o.F].Data
				lo := min(o.Off, int64(len(data)))
				hi := min(o.Off+o.Len, int64(len(data)))
				want := data[lo:hi]
				if !bytes.Equal(out.Data, want) {
					// which chunks of the range are wrong, and were they all left behind by unverified reads?
					residue := w.skipRead
					for i, ci := range w.tabs[o.F] {
						if ci.Off+ci.Size <= lo || ci.Off >= hi {
							continue
						}
						if b, ok := w.cachedBytes(o.F, i); ok && !chunkGood(ci, b) && !w.skipCached[w.cacheKey(o.F, i)] {
							residue = false
						}
					}
					if len(out.Data) != len(want) {
						residue = false
					}
					if residue {
						w.problems = append(w.problems, problem{"C01-skip-read-residue", fmt.Sprintf("read of file %d [%d,+%d) in a layer verified against the trusted TOC digest returned altered bytes left in the cache by an earlier unverified read", o.F, o.Off, o.Len)})
					} else {
						w.problems = append(w.problems, problem{"", fmt.Sprintf("read of file %d [%d,+%d) in a layer verified against the trusted TOC digest returned bytes that differ from the original content", o.F, o.Off, o.Len)})
					}
					w.sawBadServed = true
				}
			}
			if panicked && verifiedMode {
				w.problems = append(w.problems, problem{"", "read panicked in a verified layer"})
			}
			emit(fmt.Sprintf("HRead %d%%N %s %s %s", w.files[o.F], hx.CoqZ(o.Off), hx.CoqZ(o.Len), hx.CoqList(fts)), out)
			w.scanCache("after read")
		case "pass":
			// OpenFile(f).GetPassthroughFd(mergeBufferSize, workers), then the content of the cache file it hands out
			if w.rd == nil || !c.Direct || o.F < 0 || o.F >= len(c.Files) || len(w.tabs[o.F]) == 0 || o.Len <= 0 || len(w.flights) > 0 {
				continue
			}
			workers := max(o.I, 1)
			if c.MinChunk > 0 {
				workers = 1 // pre-read callbacks make the order of fetches matter
			}
			verifiedMode := w.verifiedWith != ""
			before := w.cachedKeys()
			w.rec.take()
			out := Out{Kind: "r", Res: "err"}
			ra, err := w.rd.OpenFile(w.files[o.F])
			if err == nil {
				g, ok := ra.(reader.PassthroughFdGetter)
				if !ok {
					panic("file does not implement PassthroughFdGetter")
				}
				var cr cache.Reader
				_, cr, err = g.GetPassthroughFd(o.Len, workers)
				if err == nil {
					buf := make([]byte, 1<<16)
					n, rerr := cr.ReadAt(buf, 0)
					cr.Close()
					if rerr != nil && rerr != io.EOF {
						w.problems = append(w.problems, problem{"", "the cache file handed out by GetPassthroughFd cannot be read"})
					}
					out = Out{Kind: "r", Res: "ok", Data: buf[:n]}
				}
			}
			fs := w.rec.take()
			fts := []string{}
			for _, fr := range fs {
				for i, ci := range w.tabs[o.F] {
					if fr.ID == w.files[o.F] && ci.Off == fr.Off {
						fts = append(fts, fmt.Sprintf("(%d%%nat, %s)", i, w.coqFetch(fr)))
					}
				}
			}
			if out.Res == "ok" {
				w.stats["result.pass.ok"]++
				if len(fs) == 0 {
					w.stats["result.pass.nofetch"]++
				}
			} else {
				w.stats["result.pass.err"]++
				w.sawErr = true
			}
			seq := false
			for _, ci := range w.tabs[o.F] {
				if ci.Size > o.Len || ci.Off/o.Len != (ci.Off+ci.Size-1)/o.Len {
					seq = true
				}
			}
			if seq {
				w.stats["op.pass.sequential"]++
			} else {
				w.stats["op.pass.batch"]++
			}
			if !verifiedMode {
				w.skipRead = true
				w.stats["op.pass.unverified"]++
				w.noteSkipCached(before)
			} else {
				w.stats["op.pass.verified"]++
				w.sawVerifiedRd = true
			}
			// clause: what the kernel would read through the descriptor of a layer verified against the trusted digest is the original file
			if verifiedMode && out.Res == "ok" && w.verifiedWith == w.dOrig.String() && !bytes.Equal(out.Data, c.Files[o.F].Data) {
				residue := w.skipRead && len(out.Data) == len(c.Files[o.F].Data)
				if k, _ := w.wholeKey(o.F); residue && !w.skipCached[k] {
					for i, ci := range w.tabs[o.F] {
						piece := out.Data[ci.Off : ci.Off+ci.Size]
						if !bytes.Equal(piece, c.Files[o.F].Data[ci.Off:ci.Off+ci.Size]) && !w.skipResidue(o.F, i, piece) {
							residue = false
						}
					}
				}
				if residue {
					w.problems = append(w.problems, problem{"C01-skip-read-residue", fmt.Sprintf("passthrough open of file %d in a layer verified against the trusted TOC digest hands out altered bytes left in the cache by an earlier unverified read", o.F)})
				} else {
					w.problems = append(w.problems, problem{"", fmt.Sprintf("passthrough open of file %d in a layer verified against the trusted TOC digest hands out bytes that differ from the original content", o.F)})
				}
				w.sawBadServed = true
			}
			emit(fmt.Sprintf("HPass %d%%N %s %s", w.files[o.F], hx.CoqZ(o.Len), hx.CoqList(fts)), out)
			w.scanCache("after passthrough open")
		case "pfstart":
			// start one readAndCache in its own goroutine and stop it before ("add") or after ("commit") its
			// verification step; other calls (VerifyTOC!) then run while it is in flight
			if !validChunk(o.F, o.I) || c.MinChunk != 0 || len(w.flights) >= 2 {
				continue
			}
			busy := false
			for _, fl := range w.flights {
				if fl.f == o.F && fl.i == o.I {
					busy = true
				}
			}
			if busy {
				continue
			}
			at := "commit"
			if o.D == "add" || o.D == "write" || o.D == "abort" {
				at = o.D
			}
			key := w.cacheKey(o.F, o.I)
			gt := w.gc.arm(key, at)
			fl := &inflight{f: o.F, i: o.I, gt: gt, done: make(chan error, 1)}
			w.rec.take()
			go func() { fl.done <- w.prefetchOne(fl.f, fl.i) }()
			select {
			case err := <-fl.done:
				// finished without reaching the gate: cache hit, chunk read error, or aborted by the verification step
				w.gc.disarm(key)
				fs := w.rec.take()
				if at != "add" && len(fs) > 0 && !fs[0].Err && fs[0].N == fs[0].Want && err != nil {
					// the bytes were there: the verification step itself refused (decision already taken)
					w.note(fs[0].IP)
					w.stats["op.pfstart.aborted"]++
					emit(fmt.Sprintf("HAtom (PfCheck false %d%%N %d%%nat %s)", w.files[o.F], o.I, coqBytes(fs[0].IP)), Out{Kind: "o", Res: "err"})
				} else {
					ft := "None"
					if len(fs) > 0 {
						ft = "(Some " + w.coqFetch(fs[0]) + ")"
					}
					emit(fmt.Sprintf("HPrefetch %d%%N %d%%nat %s", w.files[o.F], o.I, ft), Out{Kind: "o", Res: errRes(err)})
				}
			case <-gt.reached:
				fs := w.rec.take()
				if len(fs) != 1 {
					w.stats["pfstart.oddfetch"]++
				}
				if len(fs) > 0 {
					fl.data = fs[0].IP
					w.note(fl.data)
				}
				w.flights = append(w.flights, fl)
				// Where the RLock section of readAndCache (the model's PfCheck) lies relative to the stop point:
				//  add    - not yet run
				//  write  - chunk digest parses: not yet run (the comparison follows the copy);
				//           digest does not parse: already run (verifier lookup failed, failure recorded, copy goes on unverified)
				//  commit - run, passed;   abort - run, refused
				w.stats["op.pfstart."+at]++
				pfc := fmt.Sprintf("HAtom (PfCheck false %d%%N %d%%nat %s)", w.files[o.F], o.I, coqBytes(fl.data))
				switch {
				case at == "commit" || (at == "write" && w.tabs[o.F][o.I].DigID == 0):
					fl.checked = true
					w.pend = append(w.pend, fl)
					emit(pfc, Out{Kind: "o", Res: "ok"})
				case at == "abort":
					fl.aborted = true
					w.stats["result.pfstart.abort.reached"]++
					emit(pfc, Out{Kind: "o", Res: "err"})
				}
			}
		case "rdstart":
			// an on-demand read of a range inside ONE chunk, in its own goroutine, stopped inside cacheData (before cache.Add,
			// at the first Write or before Commit: all after verifyOneChunk); other readers then run while it is parked
			if w.rd == nil || !validChunk(o.F, o.I) || o.F >= len(c.Files) || c.MinChunk != 0 || len(w.flights) >= 2 {
				continue
			}
			busy := false
			for _, fl := range w.flights {
				if fl.f == o.F && fl.i == o.I {
					busy = true
				}
			}
			if busy {
				continue
			}
			ci := w.tabs[o.F][o.I]
			lo, ln := ci.Off, ci.Size // aligned: the whole chunk
			if o.Len > 0 && ci.Size > 1 {
				lo = ci.Off + 1 + o.Off%(ci.Size-1)
				ln = max(1, min(o.Len, ci.Off+ci.Size-lo))
			}
			at := "add"
			if o.D == "write" || o.D == "commit" {
				at = o.D
			}
			key := w.cacheKey(o.F, o.I)
			gt := w.gc.arm(key, at)
			fl := &inflight{f: o.F, i: o.I, gt: gt, done: make(chan error, 1), isRead: true, rOff: lo, rLen: ln,
				verified: w.verifiedWith != "", before: w.cachedKeys()}
			w.rec.take()
			rd := w.rd
			go func() {
				p := make([]byte, fl.rLen)
				ra, err := rd.OpenFile(w.files[fl.f])
				if err == nil {
					fl.rN, err = ra.ReadAt(p, fl.rOff)
				}
				fl.rData = p
				fl.done <- err
			}()
			shape := "aligned"
			if lo != ci.Off || ln != ci.Size {
				shape = "unaligned"
			}
			select {
			case err := <-fl.done:
				// finished without reaching the stop point: served from the cache, chunk read error or verification refused
				w.gc.disarm(key)
				fs := w.rec.take()
				fts := make([]string, len(fs))
				for j, fr := range fs {
					fts[j] = w.coqFetch(fr)
				}
				out := Out{Kind: "r", Res: "err"}
				if err == nil {
					out = Out{Kind: "r", Res: "ok", Data: append([]byte{}, fl.rData[:fl.rN]...)}
					w.checkReadBytes(o.F, lo, ln, out.Data, fl.verified, "")
				} else {
					w.sawErr = true
				}
				if !fl.verified {
					w.skipRead = true
					w.noteSkipCached(fl.before)
				}
				w.stats["op.rdstart.notparked"]++
				emit(fmt.Sprintf("HRead %d%%N %s %s %s", w.files[o.F], hx.CoqZ(lo), hx.CoqZ(ln), hx.CoqList(fts)), out)
			case <-gt.reached:
				fs := w.rec.take()
				if len(fs) != 1 {
					w.stats["rdstart.oddfetch"]++
				}
				if len(fs) > 0 {
					fl.data = fs[0].IP
					w.note(fl.data)
				}
				if !fl.verified {
					w.skipRead = true
				} else {
					w.sawVerifiedRd = true
				}
				fl.checked = true
				w.flights = append(w.flights, fl)
				w.pend = append(w.pend, fl)
				w.stats["op.rdstart."+at]++
				w.stats["op.rdstart."+shape]++
				emit(fmt.Sprintf("HAtom (OdCheck false %d%%N %d%%nat %s)", w.files[o.F], o.I, coqBytes(fl.data)), Out{Kind: "o", Res: "ok"})
			}
			w.scanCache("after starting a concurrent read")
		case "pfresume":
			if len(w.flights) == 0 {
				continue
			}
			w.resume(o.I%len(w.flights), emit)
			w.scanCache("after resumed prefetch")
		case "probe":
			if !validChunk(o.F, o.I) {
				continue
			}
			b, ok := w.cachedBytes(o.F, o.I)
			out := Out{Kind: "b", Res: "none"}
			if ok {
				out = Out{Kind: "b", Res: "ok", Data: b}
				w.stats["result.probe.hit"]++
			}
			emit(fmt.Sprintf("HProbe %d%%N %d%%nat", w.files[o.F], o.I), out)
		}
	}

	for len(w.flights) > 0 {
		w.resume(0, emit)
	}
	w.scanCache("at the end")

	// Coq term of the case
	tocItems := []string{}
	for f := range w.tabs {
		cs := []string{}
		for _, ci := range w.tabs[f] {
			od := func(id int) string {
				if id == 0 {
					return "None"
				}
				return fmt.Sprintf("(Some %d%%N)", id)
			}
			cs = append(cs, fmt.Sprintf("mkChunk %s %s %s %s", hx.CoqZ(ci.Off), hx.CoqZ(ci.Size), od(ci.DigID), od(ci.PDigID)))
		}
		tocItems = append(tocItems, fmt.Sprintf("(%d%%N, %s)", w.files[f], hx.CoqList(cs)))
	}
	keys := make([]string, 0, len(w.hashed))
	for k := range w.hashed {
		keys = append(keys, k)
	}
	sort.Strings(keys)
	tab := []string{}
	for _, k := range keys {
		tab = append(tab, fmt.Sprintf("(%s, %d%%N)", coqBytes([]byte(k)), w.hashed[k]))
	}
	outTerms := make([]string, len(outs))
	for i, o := range outs {
		outTerms[i] = outTerm(o)
	}
	res.coq = fmt.Sprintf("(%s, %d%%N, %s, %s, %s)", hx.CoqList(tocItems), tocID, hx.CoqList(tab), hx.CoqList(hops), hx.CoqList(outTerms))
	res.outs = outs
	res.problems = w.problems
	res.nontriv = w.sawVerifiedRd || w.sawErr
	if w.sawBadServed {
		res.stats["result.altered.served"]++
	}
	return
}

// ---------------------------------------------------------------------------------------------
// generation

func genData(r *hx.Rng, n int) []byte {
	b := make([]byte, n)
	switch r.Pick(3, 2, 2) {
	case 0: // text-like, compressible
		for i := range b {
			b[i] = byte('a' + r.Intn(4))
		}
	case 1: // incompressible (stored deflate blocks: equal chunk sizes give equal member sizes)
		copy(b, r.Bytes(n))
	default:
		for i := range b {
			b[i] = byte('0' + i%10)
		}
	}
	return b
}

func gen(r *hx.Rng) Case {
	c := Case{Comp: "gzip"}
	if r.Chance(1, 4) {
		c.Comp = "zstd"
	}
	c.DirCache = r.Chance(1, 4)
	c.Direct = r.Chance(1, 4)
	c.ChunkSize = []int{4, 7, 8, 16, 16, 32}[r.Intn(6)]
	if r.Chance(1, 5) {
		c.MinChunk = []int{20, 40, 100}[r.Intn(3)]
	}
	names := []string{"a", "b", "d/c", "d/e"}
	nf := r.Range(1, 3)
	for i := 0; i < nf; i++ {
		n := r.Pick(1, 3, 4, 2)
		size := []int{0, r.Range(1, c.ChunkSize), r.Range(c.ChunkSize+1, 3*c.ChunkSize), 2 * c.ChunkSize}[n]
		if size > 72 {
			size = 72
		}
		d := genData(r, size)
		switch r.Pick(8, 2, 1) {
		case 1: // every chunk of the file has the same content (and so the same chunk digest)
			for j := range d {
				d[j] = d[j%c.ChunkSize]
			}
		case 2: // a copy of the previous file
			if i > 0 {
				d = append([]byte{}, c.Files[i-1].Data...)
			}
		}
		c.Files = append(c.Files, FileSpec{Name: names[i], Data: d})
	}
	c.StartClean = r.Chance(1, 4)
	nchunks := func(f int) int {
		return max(1, (len(c.Files[f].Data)+c.ChunkSize-1)/c.ChunkSize)
	}
	pickChunk := func() (int, int) {
		f := r.Intn(nf)
		return f, r.Intn(nchunks(f))
	}
	// corruption
	switch r.Pick(2, 4, 1, 4, 2, 1, 2, 1, 1) {
	case 0:
	case 1:
		f, i := pickChunk()
		c.Cors = append(c.Cors, Cor{Kind: "flip", F: f, I: i, Pos: r.Intn(1 << 16)})
	case 2:
		f, i := pickChunk()
		c.Cors = append(c.Cors, Cor{Kind: "zero", F: f, I: i, Pos: r.Intn(1 << 12)})
	case 3:
		f, i := pickChunk()
		if c.Comp == "gzip" && c.MinChunk == 0 {
			c.Cors = append(c.Cors, Cor{Kind: "replace", F: f, I: i, Alt: r.Intn(64)})
		} else {
			c.Cors = append(c.Cors, Cor{Kind: "flip", F: f, I: i, Pos: r.Intn(1 << 16)})
		}
	case 4:
		f, i := pickChunk()
		f2, i2 := pickChunk()
		c.Cors = append(c.Cors, Cor{Kind: "swap", F: f, I: i, F2: f2, I2: i2})
	case 5:
		c.Cors = append(c.Cors, Cor{Kind: "tocreser"})
	case 6: // adversary replaces a chunk and rewrites the TOC to match it
		f, i := pickChunk()
		alt := r.Intn(64)
		c.Cors = append(c.Cors, Cor{Kind: "replace", F: f, I: i, Alt: alt}, Cor{Kind: "tocdigest", F: f, I: i, Alt: alt})
	case 7:
		f, i := pickChunk()
		c.Cors = append(c.Cors, Cor{Kind: "tocnodigest", F: f, I: i})
	case 8:
		f, i := pickChunk()
		if r.Bool() {
			c.Cors = append(c.Cors, Cor{Kind: "tocfield", F: f, I: i})
		} else {
			c.Cors = append(c.Cors, Cor{Kind: "toctrail", Alt: r.Intn(400)})
		}
	}
	// history
	nops := r.Range(4, 14)
	dsel := func() string { return []string{"orig", "orig", "orig", "actual", "bad"}[r.Intn(5)] }
	readOp := func() Op {
		f := r.Intn(nf)
		sz := int64(len(c.Files[f].Data))
		cs := int64(c.ChunkSize)
		switch r.Pick(3, 3, 2, 1) {
		case 0: // whole file
			return Op{Op: "read", F: f, Off: 0, Len: sz}
		case 1: // chunk aligned
			k := int64(r.Intn(nchunks(f)))
			return Op{Op: "read", F: f, Off: k * cs, Len: min(cs*int64(r.Range(1, 2)), max(sz-k*cs, 0))}
		case 2: // unaligned
			off := int64(r.Intn(int(sz) + 1))
			return Op{Op: "read", F: f, Off: off, Len: int64(r.Range(1, int(sz)+4))}
		}
		return Op{Op: "read", F: f, Off: sz, Len: 3} // at / past EOF
	}
	for i := 0; i < nops; i++ {
		passW := 0
		if c.Direct {
			passW = 6
		}
		switch r.Pick(3, 1, 3, 1, 4, 2, 8, 2, 3, 3, passW, 3, 2, 2, 4) {
		case 0:
			c.Ops = append(c.Ops, Op{Op: "vtoc", D: dsel()})
		case 1:
			c.Ops = append(c.Ops, Op{Op: "skip"})
		case 2:
			c.Ops = append(c.Ops, Op{Op: "lverify", D: dsel()})
		case 3:
			c.Ops = append(c.Ops, Op{Op: "lskip"})
		case 4:
			f, k := pickChunk()
			c.Ops = append(c.Ops, Op{Op: "pf", F: f, I: k})
		case 5:
			c.Ops = append(c.Ops, Op{Op: "cache"})
		case 6:
			c.Ops = append(c.Ops, readOp())
		case 7:
			f, k := pickChunk()
			c.Ops = append(c.Ops, Op{Op: "probe", F: f, I: k})
		case 8:
			f, k := pickChunk()
			c.Ops = append(c.Ops, Op{Op: "pfstart", F: f, I: k, D: []string{"add", "write", "write", "commit", "abort"}[r.Intn(5)]})
		case 9:
			c.Ops = append(c.Ops, Op{Op: "pfresume", I: r.Intn(2)})
		case 10:
			cs := int64(c.ChunkSize)
			buf := []int64{cs - 1, cs, cs + 3, 2 * cs, 2*cs + 1, 3 * cs, 1000}[r.Intn(7)]
			c.Ops = append(c.Ops, Op{Op: "pass", F: r.Intn(nf), Len: max(buf, 1), I: r.Range(1, 3)})
		case 11:
			c.Ops = append(c.Ops, Op{Op: "cache", D: []string{"same", "clean", "other", "other"}[r.Intn(4)]})
		case 12:
			c.Ops = append(c.Ops, Op{Op: "switch"})
		case 13:
			f, k := pickChunk()
			c.Ops = append(c.Ops, Op{Op: "evict", F: f, I: k})
		case 14:
			f, k := pickChunk()
			o := Op{Op: "rdstart", F: f, I: k, D: []string{"add", "write", "commit"}[r.Intn(3)]}
			if r.Bool() {
				o.Off, o.Len = int64(r.Intn(32)), int64(r.Range(1, 32))
			}
			c.Ops = append(c.Ops, o)
			if r.Chance(2, 3) { // another reader while it is parked
				c.Ops = append(c.Ops, readOp())
			}
		}
	}
	// after whatever failed: re-read everything through the warm cache, then look at the cache
	if r.Chance(3, 4) {
		for f := 0; f < nf; f++ {
			c.Ops = append(c.Ops, Op{Op: "read", F: f, Off: 0, Len: int64(len(c.Files[f].Data))})
		}
		f, k := pickChunk()
		c.Ops = append(c.Ops, Op{Op: "probe", F: f, I: k})
	}
	return c
}

func corpus() []Case {
	txt := func(n int) []byte {
		b := make([]byte, n)
		for i := range b {
			b[i] = byte('a' + i%7)
		}
		return b
	}
	whole := func(n int64) Op { return Op{Op: "read", F: 0, Off: 0, Len: n} }
	return []Case{
		// intact blob, verified, reads
		{Comp: "gzip", ChunkSize: 8, Files: []FileSpec{{"a", txt(20)}}, Ops: []Op{{Op: "vtoc", D: "orig"}, whole(20), {Op: "read", F: 0, Off: 5, Len: 9}, whole(20), {Op: "probe", F: 0, I: 1}}},
		// replaced chunk, verified: read fails, nothing cached, re-read fails again
		{Comp: "gzip", ChunkSize: 8, Files: []FileSpec{{"a", txt(20)}}, Cors: []Cor{{Kind: "replace", F: 0, I: 1, Alt: 1}},
			Ops: []Op{{Op: "vtoc", D: "orig"}, whole(20), {Op: "probe", F: 0, I: 1}, {Op: "read", F: 0, Off: 0, Len: 8}, whole(20)}},
		// replaced chunk prefetched before the decision: VerifyTOC must fail, for ever
		{Comp: "gzip", ChunkSize: 8, Files: []FileSpec{{"a", txt(20)}}, Cors: []Cor{{Kind: "replace", F: 0, I: 1, Alt: 1}},
			Ops: []Op{{Op: "cache"}, {Op: "probe", F: 0, I: 1}, {Op: "vtoc", D: "orig"}, {Op: "vtoc", D: "orig"}, {Op: "lverify", D: "orig"}}},
		// decision first, then prefetch of the replaced chunk: aborted, not cached
		{Comp: "gzip", ChunkSize: 8, Files: []FileSpec{{"a", txt(20)}}, Cors: []Cor{{Kind: "replace", F: 0, I: 1, Alt: 1}},
			Ops: []Op{{Op: "vtoc", D: "orig"}, {Op: "pf", F: 0, I: 1}, {Op: "probe", F: 0, I: 1}, {Op: "cache"}, whole(20)}},
		// F9: repeated layer.Verify with another digest / after SkipVerify
		{Comp: "gzip", ChunkSize: 8, Files: []FileSpec{{"a", txt(20)}}, Ops: []Op{{Op: "lverify", D: "orig"}, {Op: "lverify", D: "bad"}, whole(20)}},
		{Comp: "gzip", ChunkSize: 8, Files: []FileSpec{{"a", txt(20)}}, Ops: []Op{{Op: "lskip"}, {Op: "lverify", D: "bad"}, whole(20)}},
		// skip-verify read of a replaced chunk, then Verify with the trusted digest, then read again (known residue)
		{Comp: "gzip", ChunkSize: 8, Files: []FileSpec{{"a", txt(20)}}, Cors: []Cor{{Kind: "replace", F: 0, I: 1, Alt: 1}},
			Ops: []Op{{Op: "lskip"}, whole(20), {Op: "lverify", D: "orig"}, whole(20)}},
		// rewritten TOC matching a replaced chunk
		{Comp: "gzip", ChunkSize: 8, Files: []FileSpec{{"a", txt(20)}}, Cors: []Cor{{Kind: "replace", F: 0, I: 1, Alt: 1}, {Kind: "tocdigest", F: 0, I: 1, Alt: 1}},
			Ops: []Op{{Op: "vtoc", D: "orig"}, {Op: "vtoc", D: "actual"}, whole(20)}},
		// handshake, order 1: the prefetch of a replaced chunk passes its verification step (records the failure), VerifyTOC runs
		// while the commit is outstanding -> must fail; order 2: stopped before the verification step, VerifyTOC succeeds,
		// the resumed prefetch must abort and cache nothing
		{Comp: "gzip", ChunkSize: 8, Files: []FileSpec{{"a", txt(20)}}, Cors: []Cor{{Kind: "replace", F: 0, I: 1, Alt: 1}},
			Ops: []Op{{Op: "pfstart", F: 0, I: 1, D: "commit"}, {Op: "vtoc", D: "orig"}, {Op: "pfresume"}, {Op: "probe", F: 0, I: 1}, {Op: "vtoc", D: "orig"}}},
		{Comp: "gzip", ChunkSize: 8, Files: []FileSpec{{"a", txt(20)}}, Cors: []Cor{{Kind: "replace", F: 0, I: 1, Alt: 1}},
			Ops: []Op{{Op: "pfstart", F: 0, I: 1, D: "add"}, {Op: "vtoc", D: "orig"}, {Op: "pfresume"}, {Op: "probe", F: 0, I: 1}, whole(20)}},
		{Comp: "gzip", ChunkSize: 8, Files: []FileSpec{{"a", txt(20)}},
			Ops: []Op{{Op: "pfstart", F: 0, I: 0, D: "commit"}, {Op: "pfstart", F: 0, I: 1, D: "add"}, {Op: "vtoc", D: "orig"}, whole(20), {Op: "pfresume", I: 1}, {Op: "pfresume"}, whole(20)}},
		// min-chunk-size: several chunks in one member (see also stopCorpus below) (pre-read callbacks), zstd
		{Comp: "gzip", ChunkSize: 8, MinChunk: 40, Files: []FileSpec{{"a", txt(20)}, {"b", txt(10)}}, Ops: []Op{{Op: "vtoc", D: "orig"}, {Op: "read", F: 1, Off: 0, Len: 10}, whole(20), {Op: "cache"}}},
		{Comp: "zstd", ChunkSize: 8, Files: []FileSpec{{"a", txt(20)}}, Cors: []Cor{{Kind: "flip", F: 0, I: 1, Pos: 77}}, Ops: []Op{{Op: "cache"}, {Op: "vtoc", D: "orig"}, whole(20)}},
	}
}

// stopCorpus: every stop point of a prefetch x {genuine, altered chunk} x {VerifyTOC(D), VerifyTOC(D')} with the
// verification call, a skip-verify request and reads run while the prefetch is stopped; then resume, probe, re-read.
func stopCorpus() []Case {
	txt := make([]byte, 20)
	for i := range txt {
		txt[i] = byte('a' + i%7)
	}
	var out []Case
	for _, at := range []string{"add", "write", "commit", "abort"} {
		for _, altered := range []bool{false, true} {
			for _, d := range []string{"orig", "bad"} {
				c := Case{Comp: "gzip", ChunkSize: 8, Files: []FileSpec{{"a", txt}}}
				if altered {
					c.Cors = []Cor{{Kind: "replace", F: 0, I: 1, Alt: 1}}
				}
				if at == "abort" {
					// Abort is only reached once the decision was taken
					c.Ops = append(c.Ops, Op{Op: "vtoc", D: d})
				}
				c.Ops = append(c.Ops,
					Op{Op: "pfstart", F: 0, I: 1, D: at},
					Op{Op: "vtoc", D: d},
					Op{Op: "read", F: 0, Off: 0, Len: 20},
					Op{Op: "probe", F: 0, I: 1},
					Op{Op: "pfresume"},
					Op{Op: "probe", F: 0, I: 1},
					Op{Op: "read", F: 0, Off: 0, Len: 20},
					Op{Op: "vtoc", D: "orig"},
					Op{Op: "read", F: 0, Off: 8, Len: 8},
					Op{Op: "skip"},
					Op{Op: "read", F: 0, Off: 0, Len: 20})
				out = append(out, c)
			}
		}
	}
	// passthrough merge: both code paths (batch: buffer = 2 chunks; sequential: buffer smaller than a chunk, and a buffer
	// that makes a chunk straddle a batch boundary), genuine and altered chunk, verified and unverified then verified
	for _, buf := range []int64{16, 5, 11} {
		for _, altered := range []bool{false, true} {
			c := Case{Comp: "gzip", ChunkSize: 8, Direct: true, Files: []FileSpec{{"a", txt}}}
			if altered {
				c.Cors = []Cor{{Kind: "replace", F: 0, I: 1, Alt: 1}}
			}
			c.Ops = []Op{{Op: "vtoc", D: "orig"}, {Op: "read", F: 0, Off: 0, Len: 8}, {Op: "pass", F: 0, Len: buf, I: 2}, {Op: "probe", F: 0, I: 1},
				{Op: "pass", F: 0, Len: buf, I: 1}, {Op: "read", F: 0, Off: 0, Len: 20}}
			out = append(out, c)
		}
	}
	out = append(out, Case{Comp: "gzip", ChunkSize: 8, Direct: true, Files: []FileSpec{{"a", txt}}, Cors: []Cor{{Kind: "replace", F: 0, I: 1, Alt: 1}},
		Ops: []Op{{Op: "lskip"}, {Op: "pass", F: 0, Len: 16, I: 2}, {Op: "lverify", D: "orig"}, {Op: "pass", F: 0, Len: 16, I: 2}}})
	out = append(out, Case{Comp: "gzip", ChunkSize: 8, MinChunk: 40, Direct: true, Files: []FileSpec{{"a", txt}, {"b", txt[:10]}},
		Ops: []Op{{Op: "vtoc", D: "orig"}, {Op: "pass", F: 1, Len: 16, I: 1}, {Op: "pass", F: 0, Len: 16, I: 1}, {Op: "read", F: 0, Off: 0, Len: 20}}})
	// TOC file with bytes after the JSON value: the trusted digest no longer matches, the digest of the whole file does
	for _, alt := range []int{0, 1} {
		out = append(out, Case{Comp: "gzip", ChunkSize: 8, Files: []FileSpec{{"a", txt}}, Cors: []Cor{{Kind: "toctrail", Alt: alt}},
			Ops: []Op{{Op: "vtoc", D: "orig"}, {Op: "vtoc", D: "actual"}, {Op: "lverify", D: "actual"}, {Op: "read", F: 0, Off: 0, Len: 20}}})
	}
	// unparsable chunk digest: the RLock section comes before the copy
	for _, pre := range []bool{false, true} {
		c := Case{Comp: "gzip", ChunkSize: 8, Files: []FileSpec{{"a", txt}}, Cors: []Cor{{Kind: "tocnodigest", F: 0, I: 1}}}
		if pre {
			c.Ops = append(c.Ops, Op{Op: "vtoc", D: "actual"})
		}
		c.Ops = append(c.Ops, Op{Op: "pfstart", F: 0, I: 1, D: "write"}, Op{Op: "vtoc", D: "actual"}, Op{Op: "pfresume"},
			Op{Op: "probe", F: 0, I: 1}, Op{Op: "vtoc", D: "actual"}, Op{Op: "read", F: 0, Off: 0, Len: 20})
		out = append(out, c)
	}
	return out
}

// orderCorpus: every order (length 2 and 3) of layer-level requests reaching ONE cached layer object -
// SkipVerify, Verify(trusted D), Verify(D') - with an altered, not yet cached chunk read (or prefetched, or opened through
// the passthrough merge) after the last request, and optionally also before it (the F9b residue class when the earlier
// read was unverified). Fixed, so that generator tuning cannot lose any of these histories.
func orderCorpus() []Case {
	txt := make([]byte, 20)
	for i := range txt {
		txt[i] = byte('a' + i%7)
	}
	reqs := []Op{{Op: "lskip"}, {Op: "lverify", D: "orig"}, {Op: "lverify", D: "bad"}}
	var seqs [][]Op
	for _, a := range reqs {
		for _, b := range reqs {
			seqs = append(seqs, []Op{a, b})
			for _, c := range reqs {
				seqs = append(seqs, []Op{a, b, c})
			}
		}
	}
	whole := Op{Op: "read", F: 0, Off: 0, Len: 20}
	tail := []Op{{Op: "probe", F: 0, I: 1}, {Op: "read", F: 0, Off: 8, Len: 8}, whole}
	mk := func(direct bool) Case {
		return Case{Comp: "gzip", ChunkSize: 8, Direct: direct, Files: []FileSpec{{"a", txt}}, Cors: []Cor{{Kind: "replace", F: 0, I: 1, Alt: 1}}}
	}
	var out []Case
	for _, sq := range seqs {
		// altered chunk first touched after the last request
		c := mk(false)
		c.Ops = append(append(c.Ops, sq...), whole)
		c.Ops = append(c.Ops, tail...)
		out = append(out, c)
		// ... and also before the last request
		c = mk(false)
		c.Ops = append(append(c.Ops, sq[:len(sq)-1]...), whole, sq[len(sq)-1], whole)
		c.Ops = append(c.Ops, tail...)
		out = append(out, c)
		if len(sq) == 2 {
			// prefetch (one chunk, then Cache()) instead of a read
			c = mk(false)
			c.Ops = append(append(c.Ops, sq...), Op{Op: "pf", F: 0, I: 1}, Op{Op: "probe", F: 0, I: 1}, Op{Op: "cache"}, Op{Op: "lverify", D: "orig"}, whole)
			out = append(out, c)
			// passthrough open instead of a read
			c = mk(true)
			c.Ops = append(append(c.Ops, sq...), Op{Op: "pass", F: 0, Len: 16, I: 2}, Op{Op: "probe", F: 0, I: 1}, whole)
			out = append(out, c)
		}
	}
	return out
}

// sourceCorpus: APIs that take a NEW section reader / new registry answers after the layer was opened, identical
// chunks, re-fetch after eviction, retried verification. Fixed cases.
func sourceCorpus() []Case {
	txt := make([]byte, 20)
	for i := range txt {
		txt[i] = byte('a' + i%7)
	}
	rep := bytes.Repeat([]byte("abcdefgh"), 3)
	whole := Op{Op: "read", F: 0, Off: 0, Len: 20}
	var out []Case
	// Cache(WithReader(sr')) = layer.backgroundFetch: sr' serves the same blob / the unaltered build / another self-consistent eStargz,
	// before and after the verification (memory store: Clone re-reads the TOC; the other TOC must be refused)
	for _, src := range []string{"same", "clean", "other"} {
		for _, altered := range []bool{false, true} {
			for _, first := range []bool{false, true} {
				c := Case{Comp: "gzip", ChunkSize: 8, Files: []FileSpec{{"a", txt}}}
				if altered {
					c.Cors = []Cor{{Kind: "replace", F: 0, I: 1, Alt: 1}}
				}
				if first {
					c.Ops = []Op{{Op: "cache", D: src}, {Op: "vtoc", D: "orig"}, {Op: "probe", F: 0, I: 1}, whole, {Op: "vtoc", D: "orig"}}
				} else {
					c.Ops = []Op{{Op: "vtoc", D: "orig"}, {Op: "cache", D: src}, {Op: "probe", F: 0, I: 0}, {Op: "probe", F: 0, I: 1}, whole}
				}
				out = append(out, c)
			}
		}
	}
	out = append(out, Case{Comp: "zstd", ChunkSize: 8, Files: []FileSpec{{"a", txt}}, Ops: []Op{{Op: "lverify", D: "orig"}, {Op: "cache", D: "other"}, {Op: "probe", F: 0, I: 0}, whole}})
	// the registry serves the genuine blob first and altered bytes later (Refresh / mirror change): uncached chunk, and re-fetch after eviction
	out = append(out, Case{Comp: "gzip", ChunkSize: 8, StartClean: true, Files: []FileSpec{{"a", txt}}, Cors: []Cor{{Kind: "replace", F: 0, I: 1, Alt: 1}},
		Ops: []Op{{Op: "vtoc", D: "orig"}, {Op: "read", F: 0, Off: 0, Len: 8}, {Op: "switch"}, whole, {Op: "probe", F: 0, I: 1}, {Op: "switch"}, whole}})
	out = append(out, Case{Comp: "gzip", ChunkSize: 8, StartClean: true, Files: []FileSpec{{"a", txt}}, Cors: []Cor{{Kind: "replace", F: 0, I: 1, Alt: 1}},
		Ops: []Op{{Op: "vtoc", D: "orig"}, whole, {Op: "evict", F: 0, I: 1}, {Op: "switch"}, whole, {Op: "probe", F: 0, I: 1}, {Op: "cache"}, {Op: "pf", F: 0, I: 1}, whole}})
	out = append(out, Case{Comp: "gzip", ChunkSize: 8, StartClean: true, Files: []FileSpec{{"a", txt}}, Cors: []Cor{{Kind: "replace", F: 0, I: 1, Alt: 1}},
		Ops: []Op{{Op: "cache"}, {Op: "vtoc", D: "orig"}, {Op: "evict", F: 0, I: 1}, {Op: "switch"}, {Op: "cache"}, {Op: "probe", F: 0, I: 1}, whole}})
	// chunks with identical content and digest, one of them altered: genuine first, then the altered one (read, prefetch, passthrough)
	for _, kind := range []string{"read", "pf", "pass"} {
		c := Case{Comp: "gzip", ChunkSize: 8, Direct: kind == "pass", Files: []FileSpec{{"a", rep}, {"b", rep[:8]}}, Cors: []Cor{{Kind: "replace", F: 0, I: 1, Alt: 1}}}
		c.Ops = []Op{{Op: "vtoc", D: "orig"}, {Op: "read", F: 1, Off: 0, Len: 8}, {Op: "read", F: 0, Off: 0, Len: 8}}
		switch kind {
		case "read":
			c.Ops = append(c.Ops, Op{Op: "read", F: 0, Off: 8, Len: 8}, Op{Op: "read", F: 0, Off: 16, Len: 8})
		case "pf":
			c.Ops = append(c.Ops, Op{Op: "pf", F: 0, I: 1}, Op{Op: "cache"})
		default:
			c.Ops = append(c.Ops, Op{Op: "pass", F: 0, Len: 16, I: 2}, Op{Op: "pass", F: 0, Len: 5, I: 1})
		}
		c.Ops = append(c.Ops, Op{Op: "probe", F: 0, I: 1}, Op{Op: "read", F: 0, Off: 0, Len: 24})
		out = append(out, c)
	}
	// unverified read caches an altered chunk, the layer is verified, the passthrough merge copies the cached chunk into a new
	// whole-file entry (F9b residue class, found by a thorough run): both merge paths, reader and layer level, zstd too
	for _, buf := range []int64{24, 15, 16} {
		for _, lvl := range []string{"skip", "lskip"} {
			out = append(out, Case{Comp: "gzip", ChunkSize: 8, Direct: true, Files: []FileSpec{{"a", txt}}, Cors: []Cor{{Kind: "replace", F: 0, I: 1, Alt: 1}},
				Ops: []Op{{Op: lvl}, {Op: "read", F: 0, Off: 0, Len: 16}, {Op: "lverify", D: "orig"}, {Op: "pass", F: 0, Len: buf, I: 2},
					{Op: "evict", F: 0, I: 1}, whole, {Op: "pass", F: 0, Len: buf, I: 1}}})
		}
	}
	out = append(out, Case{Comp: "zstd", ChunkSize: 8, Direct: true, Files: []FileSpec{{"a", rep}}, Cors: []Cor{{Kind: "flip", F: 0, I: 0, Pos: 54440}},
		Ops: []Op{{Op: "skip"}, {Op: "read", F: 0, Off: 0, Len: 16}, {Op: "lverify", D: "orig"}, {Op: "pass", F: 0, Len: 24, I: 3}, whole}})
	out = append(out, Case{Comp: "gzip", ChunkSize: 8, Direct: true, Files: []FileSpec{{"a", txt}}, Cors: []Cor{{Kind: "replace", F: 0, I: 1, Alt: 1}},
		Ops: []Op{{Op: "lskip"}, {Op: "pass", F: 0, Len: 16, I: 2}, {Op: "lverify", D: "orig"}, {Op: "pass", F: 0, Len: 16, I: 2}, whole}})
	// a failed verification retried on the same reader / layer object, with re-reads in between
	out = append(out, Case{Comp: "gzip", ChunkSize: 8, Files: []FileSpec{{"a", txt}}, Cors: []Cor{{Kind: "replace", F: 0, I: 1, Alt: 1}},
		Ops: []Op{{Op: "pf", F: 0, I: 1}, {Op: "lverify", D: "orig"}, {Op: "lverify", D: "orig"}, {Op: "vtoc", D: "orig"}, {Op: "cache"}, {Op: "vtoc", D: "orig"}, {Op: "lskip"}, {Op: "lverify", D: "orig"}, whole}})
	return out
}

// readersCorpus: two on-demand readers on one layer. Reader 1 (aligned or unaligned, one chunk) is stopped inside
// cacheData - before cache.Add, at the first Write, before Commit - reader 2 then reads another chunk of the same file
// or another file (unaligned = through the pooled buffers, or aligned) to completion, reader 1 resumes; afterwards the
// cache entry of reader 1's chunk is probed and everything is re-read through the cache.
func readersCorpus() []Case {
	a := []byte("abcdefghijklmnopqrst")
	b := []byte("ABCDEFGHIJKL")
	var out []Case
	for _, at := range []string{"add", "write", "commit"} {
		for _, unaligned1 := range []bool{true, false} {
			for r2 := 0; r2 < 3; r2++ {
				c := Case{Comp: "gzip", ChunkSize: 8, Files: []FileSpec{{"a", a}, {"b", b}}}
				r1 := Op{Op: "rdstart", F: 0, I: 0, D: at}
				if unaligned1 {
					r1.Off, r1.Len = 0, 5
				}
				second := []Op{{Op: "read", F: 1, Off: 1, Len: 5}, {Op: "read", F: 0, Off: 9, Len: 4}, {Op: "read", F: 1, Off: 0, Len: 8}}[r2]
				c.Ops = []Op{{Op: "vtoc", D: "orig"}, r1, second, {Op: "read", F: 0, Off: 17, Len: 2}, {Op: "pfresume"},
					{Op: "probe", F: 0, I: 0}, {Op: "read", F: 0, Off: 0, Len: 20}, {Op: "read", F: 1, Off: 0, Len: 12}}
				out = append(out, c)
			}
		}
	}
	// two parked readers, resumed in the other order; an unverified layer; an altered chunk (verification refuses: never parks)
	out = append(out, Case{Comp: "gzip", ChunkSize: 8, Files: []FileSpec{{"a", a}, {"b", b}},
		Ops: []Op{{Op: "vtoc", D: "orig"}, {Op: "rdstart", F: 0, I: 0, D: "add", Off: 2, Len: 3}, {Op: "rdstart", F: 1, I: 0, D: "commit", Off: 1, Len: 4},
			{Op: "read", F: 0, Off: 9, Len: 3}, {Op: "pfresume", I: 1}, {Op: "pfresume"}, {Op: "probe", F: 0, I: 0}, {Op: "probe", F: 1, I: 0},
			{Op: "read", F: 0, Off: 0, Len: 20}, {Op: "read", F: 1, Off: 0, Len: 12}}})
	out = append(out, Case{Comp: "gzip", ChunkSize: 8, Files: []FileSpec{{"a", a}, {"b", b}},
		Ops: []Op{{Op: "lskip"}, {Op: "rdstart", F: 0, I: 0, D: "add", Off: 2, Len: 3}, {Op: "read", F: 1, Off: 1, Len: 5}, {Op: "lverify", D: "orig"},
			{Op: "pfresume"}, {Op: "probe", F: 0, I: 0}, {Op: "read", F: 0, Off: 0, Len: 20}}})
	out = append(out, Case{Comp: "gzip", ChunkSize: 8, Files: []FileSpec{{"a", a}, {"b", b}}, Cors: []Cor{{Kind: "replace", F: 0, I: 0, Alt: 1}},
		Ops: []Op{{Op: "vtoc", D: "orig"}, {Op: "rdstart", F: 0, I: 0, D: "add", Off: 2, Len: 3}, {Op: "read", F: 1, Off: 1, Len: 5}, {Op: "pfresume"},
			{Op: "probe", F: 0, I: 0}, {Op: "read", F: 0, Off: 0, Len: 20}}})
	return out
}

var (
	theStore     metadata.Store
	theStoreName string
)

// Main runs the harness over the given metadata store ("memory" | "db").
func Main(store metadata.Store, name string) {
	theStore, theStoreName = store, name
	runtime.GOMAXPROCS(1) // Cache() then handles one chunk at a time: the recorder sees whole fetches
	ctx := hx.Start()
	emit := func(c Case) {
		defer func() {
			if r := recover(); r != nil {
				b, _ := json.Marshal(c)
				fmt.Fprintf(os.Stderr, "harness panic on case %s\n", b)
				panic(r)
			}
		}()
		res := run(c)
		for k, v := range res.stats {
			ctx.CountN(k, v)
		}
		if !res.opened {
			return
		}
		id := ctx.Case(res.coq, c, res.coq, res.nontriv)
		for _, p := range res.problems {
			if p.sig != "" {
				ctx.Finding(id, p.sig, p.what, nil)
			} else {
				ctx.Violation(id, p.what, nil)
			}
		}
	}
	if ctx.Replay != "" {
		var c Case
		ctx.LoadReplay(&c)
		emit(c)
		ctx.Finish()
		return
	}
	n := 0
	for _, c := range append(append(append(append(corpus(), stopCorpus()...), orderCorpus()...), sourceCorpus()...), readersCorpus()...) {
		emit(c)
		n++
	}
	r := hx.NewRng(ctx.Seed)
	for ; n < ctx.N; n++ {
		emit(gen(r.Fork()))
	}
	ctx.Finish()
}
