// C15 correspondence harness: builds eStargz / stargz layers (prefetch landmark, no-prefetch landmark, no landmark),
// resolves them through the real layer.Resolver over an in-memory registry with a request log, and drives
// Prefetch / WaitForPrefetchCompletion / BackgroundFetch / reads under registry failures, stalls, held-back cache
// persistence and prioritized-task interference. Prints, per case, the configuration, the observed layout, the
// script and the observed outputs as a Coq term for Model/Prefetch.v, and evaluates the property's clauses
// directly on the observations (model-free oracle).
package prefetchx

import (
	"fmt"
	"os"
	"path"
	"runtime/debug"
	"strings"
	"time"

	"verif/harness/hx"
)

type FileSpec struct {
	Name   string `json:"name"`
	Kind   string `json:"kind"` // reg | dir | sym | link
	Size   int    `json:"size,omitempty"`
	Target string `json:"target,omitempty"`
}

type Op struct {
	Op       string `json:"op"` // hold settle off on pf rel wait readprio readall bg
	N        int    `json:"n,omitempty"`
	Fault    string `json:"fault,omitempty"` // "" | fail | fail2 (fail right behind the rounded prefetch range) | stall
	FailFrom int64  `json:"fail_from,omitempty"`
	Intf     bool   `json:"intf,omitempty"`
	Bad      bool   `json:"bad,omitempty"` // check: a mountpoint nobody mounted
	Buf      int    `json:"buf,omitempty"`
}

type Case struct {
	Files        []FileSpec `json:"files"`
	Prio         []string   `json:"prio"`
	LM           string     `json:"lm"` // prefetch | noprefetch | none
	ChunkSize    int        `json:"chunk_size"`
	MinChunk     int        `json:"min_chunk"`
	Zstd         bool       `json:"zstd"`
	PrefetchSize int64      `json:"prefetch_size"`
	AsyncSize    int64      `json:"async_size"`
	BlobCS       int64      `json:"blob_cs"`
	BlobPCS      int64      `json:"blob_pcs"`
	Store        string     `json:"store"`
	HTTPCache    string     `json:"http_cache"` // memory | dir
	FSCache      string     `json:"fs_cache"`
	LRU          int        `json:"lru"`
	SyncAdd      bool       `json:"sync_add"`
	SkipVerify   bool       `json:"skip_verify"`
	FS           bool       `json:"fs,omitempty"`           // filesystem level: fs.NewFilesystem, Mount (no FUSE), Check
	NoPrefetch   bool       `json:"noprefetch,omitempty"`   // fs config
	NoBG         bool       `json:"no_bg,omitempty"`        // fs config no_background_fetch
	CheckAlways  bool       `json:"check_always,omitempty"` // blob config
	LabelSize    bool       `json:"label_size,omitempty"`   // the prefetch size comes from the snapshot label, the config has another one
	Ops          []Op       `json:"ops"`
}

type FileObs struct {
	Name     string     `json:"name"`
	ID       uint32     `json:"id"`
	Off      int64      `json:"off"`
	Size     int64      `json:"size"`
	Chunks   [][2]int64 `json:"chunks"`
	Prio     bool       `json:"prio"`
	Landmark bool       `json:"landmark"`
}

type OpOut struct {
	Res      string     `json:"res"`
	Reqs     [][2]int64 `json:"reqs,omitempty"`    // registry requests of the prefetch body, in arrival order
	PfSize   int64      `json:"pf_size,omitempty"` // Info().PrefetchSize after the body
	Keys     [][3]int64 `json:"keys,omitempty"`
	HasKeys  bool       `json:"has_keys,omitempty"`
	Errs     int        `json:"errs,omitempty"`
	FailFrom int64      `json:"fail_from,omitempty"` // fail2: the offset the registry failed from
	Waited   bool       `json:"waited,omitempty"`    // check: it took at least the prefetch timeout
	Full     bool       `json:"full,omitempty"`      // check: the blob was fetched completely before the call
	Grew     bool       `json:"grew,omitempty"`
}

type Obs struct {
	BlobSize     int64     `json:"blob_size"`
	NoPrefetchLM bool      `json:"no_prefetch_lm"`
	LMOff        int64     `json:"lm_off"`
	Files        []FileObs `json:"files"`
	Pre          []int64   `json:"pre"`
	Outs         []OpOut   `json:"outs"`
	SetupErr     string    `json:"setup_err,omitempty"`
}

func (c *Case) dirCache() bool { return c.HTTPCache != "memory" || c.FSCache != "memory" }

// ---------------------------------------------------------------------------------------------
// generation

var names = []string{"a", "b", "c", "d/e", "d/f", "d/g/h", "k", "m/n", "z"}

// reserved base names in SUBDIRECTORIES: there they are ordinary regular files (the TOC, the landmarks and whiteouts
// of the root have their special meaning only at the root / for the overlay), to be prefetched, fetched and read like any other
var reservedNames = []string{"d/stargz.index.json", "m/stargz.index.json", "d/g/stargz.index.json", "d/.prefetch.landmark",
	"m/.no.prefetch.landmark", "d/g/.wh.gone", "m/.wh..wh..opq", "d/.wh.stargz.index.json"}

func gen(r *hx.Rng, stores []string) Case {
	c := Case{Store: stores[r.Intn(len(stores))]}
	// files
	nf := r.Range(1, 7)
	perm := append([]string{}, names...)
	for i := len(perm) - 1; i > 0; i-- {
		j := r.Intn(i + 1)
		perm[i], perm[j] = perm[j], perm[i]
	}
	if r.Chance(1, 3) {
		// one or two files with a reserved base name below the root
		for k := 0; k < r.Range(1, 2) && k < nf; k++ {
			perm[k] = reservedNames[r.Intn(len(reservedNames))]
		}
		if nf > 1 && perm[0] == perm[1] {
			perm[1] = "a"
		}
	}
	dirs := map[string]bool{}
	var regs []string
	for _, n := range perm[:nf] {
		parts := strings.Split(n, "/")
		for i := 1; i < len(parts); i++ {
			d := strings.Join(parts[:i], "/")
			if !dirs[d] && r.Chance(4, 5) { // sometimes an implicit parent directory
				dirs[d] = true
				c.Files = append(c.Files, FileSpec{Name: d + "/", Kind: "dir"})
			}
		}
		size := 0
		switch r.Pick(2, 5, 4, 2) {
		case 0:
			size = r.Pick(1, 1) // 0 or 1
		case 1:
			size = r.Range(2, 3000)
		case 2:
			size = r.Range(3000, 20000)
		case 3:
			size = r.Range(20000, 45000)
		}
		c.Files = append(c.Files, FileSpec{Name: n, Kind: "reg", Size: size})
		regs = append(regs, n)
	}
	if r.Chance(1, 4) && len(regs) > 0 {
		c.Files = append(c.Files, FileSpec{Name: "ln", Kind: "link", Target: regs[r.Intn(len(regs))]})
	}
	if r.Chance(1, 5) {
		c.Files = append(c.Files, FileSpec{Name: "sl", Kind: "sym", Target: "a"})
	}
	// layout
	c.ChunkSize = []int{1000, 4096, 10000, 50000, 1 << 20}[r.Pick(2, 3, 3, 2, 1)]
	// (min-chunk-size layers are generated for both stores: the db store's file reader used to fail on multi-chunk files
	// whose chunks share a stream, "discard of remaining -1000 bytes"; found by this harness, repaired by
	// patches/C05-fix-8.diff.)
	if r.Chance(1, 4) {
		c.MinChunk = []int{500, 3000, 20000}[r.Intn(3)]
		// (Empty regular files in such a layer used to break every read of the first stream: an empty file has Offset 0 /
		// InnerOffset 0 in the TOC and was taken for a member of the stream at offset 0 by estargz's fileReader.ReadAt,
		// "discard of remaining -N bytes"; found by this harness, repaired by patches/C02-fix-1.diff, generated again.)
	}
	c.Zstd = r.Chance(1, 5)
	switch r.Pick(6, 2, 2) {
	case 0:
		c.LM = "prefetch"
		for _, n := range regs {
			if r.Chance(1, 2) {
				c.Prio = append(c.Prio, n)
			}
		}
		if len(c.Prio) == 0 {
			c.Prio = []string{regs[r.Intn(len(regs))]}
		}
		for i := len(c.Prio) - 1; i > 0; i-- {
			j := r.Intn(i + 1)
			c.Prio[i], c.Prio[j] = c.Prio[j], c.Prio[i]
		}
		if r.Chance(1, 6) {
			for _, f := range c.Files {
				if f.Kind == "link" {
					c.Prio = append(c.Prio, f.Name)
				}
			}
		}
		if r.Chance(1, 6) && dirs["d"] {
			c.Prio = append(c.Prio, "d/")
		}
	case 1:
		c.LM = "noprefetch"
	case 2:
		c.LM = "none"
	}
	// configuration
	c.BlobCS = []int64{700, 2000, 5000, 16000, 50000, 1 << 20}[r.Pick(2, 3, 3, 3, 2, 1)]
	switch r.Pick(3, 2, 2) {
	case 0:
		c.BlobPCS = 0
	case 1:
		c.BlobPCS = c.BlobCS * int64(r.Range(2, 4))
	case 2:
		c.BlobPCS = c.BlobCS*int64(r.Range(1, 3)) + int64(r.Intn(int(c.BlobCS)))
	}
	switch r.Pick(1, 3, 3, 2, 1) {
	case 0:
		c.PrefetchSize = 0
	case 1:
		c.PrefetchSize = int64(r.Range(1, 5000))
	case 2:
		c.PrefetchSize = int64(r.Range(5000, 60000))
	case 3:
		c.PrefetchSize = int64(r.Range(60000, 400000))
	case 4:
		c.PrefetchSize = c.BlobCS * int64(r.Range(1, 4)) // boundary
	}
	switch r.Pick(3, 2, 2) {
	case 0:
		c.AsyncSize = 0
	case 1:
		c.AsyncSize = int64(r.Range(1, 3000))
	case 2:
		c.AsyncSize = int64(r.Range(3000, 100000))
	}
	c.HTTPCache, c.FSCache = "memory", "memory"
	switch r.Pick(5, 2, 2, 3) {
	case 1:
		c.FSCache = "dir"
	case 2:
		c.HTTPCache = "dir"
	case 3:
		c.HTTPCache, c.FSCache = "dir", "dir"
	}
	c.LRU = []int{1, 2, 3, 10}[r.Pick(3, 2, 1, 2)]
	c.SyncAdd = r.Chance(1, 3)
	c.SkipVerify = r.Chance(1, 5)
	c.Ops = genOps(r, &c)
	if r.Chance(1, 8) {
		genSecondPhase(r, &c)
	} else if r.Chance(1, 3) {
		genFS(r, &c)
	} else if c.LM == "prefetch" && r.Chance(1, 10) {
		// landmark offset <= async threshold < configured size: the threshold must be compared with the range that is
		// really prefetched (the landmark's), so a wait during the parked download is NOT released early
		c.AsyncSize = int64(r.Range(350000, 450000))
		c.PrefetchSize = int64(r.Range(500000, 2000000))
		c.Ops = []Op{{Op: "pf", N: r.Range(1, 2), Fault: "stall"}, {Op: "wait", N: r.Range(1, 3)}, {Op: "rel"}, {Op: "wait"}, {Op: "readprio"}}
	}
	return c
}

// genSecondPhase: the prefetch fails in its SECOND phase. The registry serves the download of the (chunk-rounded) range
// and fails everything behind it; without a landmark the configured size ends in the middle of a file, so decompressing
// that file needs bytes behind the range and Prefetch fails after the download. Then the registry recovers, the
// background fetch runs, the registry goes away and everything is read: the background fetch must not rely on anything
// the failed prefetch "has done". (With a landmark nothing prioritized lies behind the range: the same script succeeds.)
func genSecondPhase(r *hx.Rng, c *Case) {
	if r.Chance(3, 4) {
		c.LM, c.Prio = "none", nil
	}
	// incompressible contents: a file starts roughly where the sizes before it end
	var regs []int
	for i, f := range c.Files {
		if f.Kind == "reg" {
			regs = append(regs, i)
		}
	}
	for len(regs) < 2 {
		c.Files = append(c.Files, FileSpec{Name: fmt.Sprintf("y%d", len(regs)), Kind: "reg", Size: 0})
		regs = append(regs, len(c.Files)-1)
	}
	for _, i := range regs {
		if c.Files[i].Size < 9000 {
			c.Files[i].Size = r.Range(9000, 40000)
		}
	}
	c.BlobCS = []int64{700, 2000}[r.Intn(2)]
	c.BlobPCS = []int64{0, c.BlobCS * 3}[r.Intn(2)]
	k := r.Intn(len(regs))
	start := 0
	for _, i := range regs[:k] {
		start += c.Files[i].Size + 600
	}
	c.PrefetchSize = int64(start + 600 + c.Files[regs[k]].Size/2)
	c.AsyncSize = 0
	if c.dirCache() {
		c.SyncAdd = true
	}
	ops := []Op{{Op: "pf", N: r.Range(1, 2), Fault: "fail2"}}
	if r.Bool() {
		ops = append(ops, Op{Op: "wait"})
	}
	if r.Chance(1, 3) {
		ops = append(ops, Op{Op: "pf"})
	}
	ops = append(ops, Op{Op: "bg", N: r.Range(1, 2), Intf: r.Chance(1, 4)})
	if r.Bool() {
		ops = append(ops, Op{Op: "refresh"})
	}
	ops = append(ops, Op{Op: "off"}, Op{Op: "readall", Buf: []int{0, 777, 4096}[r.Intn(3)]})
	c.Ops = ops
}

// genFS turns the case into a filesystem-level one: the real fs.Mount (without the FUSE server) and fs.Check.
func genFS(r *hx.Rng, c *Case) {
	c.FS = true
	c.NoPrefetch = r.Chance(1, 6)
	c.NoBG = r.Chance(3, 5)
	c.CheckAlways = r.Chance(1, 2)
	c.LabelSize = r.Chance(1, 3)
	many := func() int {
		if r.Chance(1, 4) {
			return r.Range(2, 3)
		}
		return 1
	}
	var ops []Op
	if r.Chance(1, 5) {
		ops = append(ops, Op{Op: "check"}) // nothing mounted yet
	}
	m := Op{Op: "mount"}
	if c.NoBG && !c.NoPrefetch {
		switch r.Pick(4, 1, 4) {
		case 1:
			m.Fault = "fail"
			m.FailFrom = []int64{0, c.BlobCS, int64(r.Range(0, 40000))}[r.Intn(3)]
		case 2:
			m.Fault = "stall"
		}
	}
	ops = append(ops, m)
	if r.Chance(1, 6) {
		ops = append(ops, Op{Op: "check", Bad: true})
	}
	if m.Fault == "stall" {
		// the user-visible waiting: the first Check waits for the parked prefetch (bounded by the timeout) unless the
		// async threshold released it; later checks and waits return at once
		switch r.Pick(3, 1, 1) {
		case 0:
			ops = append(ops, Op{Op: "check"})
		case 1:
			ops = append(ops, Op{Op: "wait", N: many()}, Op{Op: "check"})
		case 2:
			ops = append(ops, Op{Op: "off"}, Op{Op: "check"}, Op{Op: "on"})
		}
		if r.Chance(1, 2) {
			ops = append(ops, Op{Op: "check"})
		}
		ops = append(ops, Op{Op: "rel"})
	}
	ops = append(ops, Op{Op: "check"})
	if r.Chance(1, 3) {
		ops = append(ops, Op{Op: "off"}, Op{Op: "check"})
		if r.Chance(1, 2) {
			ops = append(ops, Op{Op: "on"}, Op{Op: "check"})
		} else {
			ops = append(ops, Op{Op: "readprio"}, Op{Op: "on"})
		}
	}
	if r.Chance(2, 3) {
		ops = append(ops, Op{Op: "readprio", Buf: []int{0, 777, 4096}[r.Intn(3)]})
	}
	if r.Chance(1, 4) {
		ops = append(ops, Op{Op: "pf", N: many()}, Op{Op: "wait"})
	}
	if c.NoBG && r.Chance(1, 2) {
		ops = append(ops, Op{Op: "bg", N: many()})
		if r.Bool() {
			ops = append(ops, Op{Op: "refresh"})
		}
		ops = append(ops, Op{Op: "off"}, Op{Op: "readall"}, Op{Op: "check"})
	} else if r.Chance(1, 2) {
		ops = append(ops, Op{Op: "off"}, Op{Op: "readall"})
	}
	c.Ops = ops
}

func genOps(r *hx.Rng, c *Case) []Op {
	var ops []Op
	buf := func() int {
		if r.Bool() {
			return 0
		}
		return []int{1, 777, 4096, 30000}[r.Intn(4)]
	}
	many := func() int {
		if r.Chance(1, 4) {
			return r.Range(2, 4)
		}
		return 1
	}
	canHold := c.dirCache() && !c.SyncAdd
	// prologue
	if r.Chance(1, 8) {
		ops = append(ops, Op{Op: "wait", N: many()}) // waiting before anybody prefetches: must time out
	}
	if r.Chance(1, 10) {
		ops = append(ops, Op{Op: "readprio", Buf: buf()})
	}
	if r.Chance(1, 8) {
		ops = append(ops, Op{Op: "readpart"}) // files partly cached before prefetch / background fetch walk them
	}
	if r.Chance(1, 10) {
		ops = append(ops, Op{Op: "off"})
		if r.Bool() {
			ops = append(ops, Op{Op: "pf", N: many()}, Op{Op: "on"})
		} else {
			ops = append(ops, Op{Op: "on"})
		}
	}
	held := false
	if canHold && r.Chance(1, 3) {
		ops = append(ops, Op{Op: "hold"})
		held = true
	}
	// prefetch
	pf := Op{Op: "pf", N: many()}
	switch r.Pick(6, 2, 3) {
	case 1:
		pf.Fault = "fail"
		pf.FailFrom = []int64{0, c.BlobCS, int64(r.Range(0, 40000))}[r.Intn(3)]
	case 2:
		pf.Fault = "stall"
	}
	ops = append(ops, pf)
	if pf.Fault == "stall" {
		if r.Chance(3, 4) {
			ops = append(ops, Op{Op: "wait", N: many()})
		}
		if r.Chance(1, 3) {
			ops = append(ops, Op{Op: "pf", N: many()})
		}
		if r.Chance(1, 3) {
			ops = append(ops, Op{Op: "wait", N: many()})
		}
		ops = append(ops, Op{Op: "rel"})
	}
	if r.Chance(2, 3) {
		ops = append(ops, Op{Op: "wait", N: many()})
	}
	if r.Chance(1, 4) {
		ops = append(ops, Op{Op: "pf", N: many()})
	}
	if r.Chance(1, 4) && pf.Fault != "fail" && !held {
		// cold compressed-blob cache: what prefetch did not put into the chunk cache has to come from the registry
		ops = append(ops, Op{Op: "refresh"}, Op{Op: "off"}, Op{Op: "readprio", Buf: buf()}, Op{Op: "on"})
	} else if r.Chance(1, 6) {
		ops = append(ops, Op{Op: "off"}, Op{Op: "readprio", Buf: buf()}, Op{Op: "on"})
	} else if r.Chance(4, 5) {
		ops = append(ops, Op{Op: "readprio", Buf: buf()})
	}
	if held {
		ops = append(ops, Op{Op: "settle"})
		if r.Chance(2, 3) {
			ops = append(ops, Op{Op: "readprio", Buf: buf()})
		}
	}
	// background fetch
	if r.Chance(3, 4) {
		if canHold && r.Chance(1, 6) {
			ops = append(ops, Op{Op: "hold"})
			held = true
		} else {
			held = false
		}
		if !held && r.Chance(1, 4) {
			ops = append(ops, Op{Op: "readpart"})
		}
		bg := Op{Op: "bg", N: many(), Intf: r.Chance(1, 3), Buf: buf()}
		if r.Chance(1, 5) {
			bg.Fault = "fail"
			bg.FailFrom = []int64{0, int64(r.Range(0, 40000))}[r.Intn(2)]
		}
		ops = append(ops, bg)
		if r.Chance(1, 4) {
			ops = append(ops, Op{Op: "bg", N: many()})
		}
		if held {
			ops = append(ops, Op{Op: "settle"})
		}
		if r.Chance(2, 3) {
			if !held && r.Chance(1, 2) {
				ops = append(ops, Op{Op: "refresh"})
			}
			ops = append(ops, Op{Op: "off"}, Op{Op: "readall", Buf: buf()})
			if r.Chance(1, 3) {
				ops = append(ops, Op{Op: "wait"})
			}
		} else {
			ops = append(ops, Op{Op: "readall", Buf: buf()})
		}
	} else if r.Bool() {
		ops = append(ops, Op{Op: "readall", Buf: buf()})
	}
	return ops
}

// ---------------------------------------------------------------------------------------------
// Coq printing

func coqPairs(xs [][2]int64) string {
	s := make([]string, len(xs))
	for i, x := range xs {
		s[i] = fmt.Sprintf("(%s, %s)", hx.CoqZ(x[0]), hx.CoqZ(x[1]))
	}
	return hx.CoqList(s)
}

func coqKeys(xs [][3]int64) string {
	s := make([]string, len(xs))
	for i, x := range xs {
		s[i] = fmt.Sprintf("(%s, %s, %s)", hx.CoqZ(x[0]), hx.CoqZ(x[1]), hx.CoqZ(x[2]))
	}
	return hx.CoqList(s)
}

func coqFault(o Op, out *OpOut) string {
	switch o.Fault {
	case "fail":
		return fmt.Sprintf("(FFail %s)", hx.CoqZ(o.FailFrom))
	case "fail2":
		if out != nil {
			return fmt.Sprintf("(FFail %s)", hx.CoqZ(out.FailFrom))
		}
		return "(FFail 0%Z)"
	case "stall":
		return "FStall"
	}
	return "FNone"
}

func outOf(obs *Obs, i int) *OpOut {
	if i < len(obs.Outs) {
		return &obs.Outs[i]
	}
	return nil
}

func coqRes(s string) string {
	switch s {
	case "ok":
		return "ROk"
	case "err":
		return "RErr"
	case "timeout":
		return "RTimeout"
	case "stalled":
		return "RStalled"
	}
	return "RNone"
}

func coqCase(c *Case, obs *Obs) string {
	lm := "None"
	if obs.LMOff >= 0 {
		lm = "(Some " + hx.CoqZ(obs.LMOff) + ")"
	}
	kind := func(t string) string {
		if t == "memory" {
			return "CMem"
		}
		return fmt.Sprintf("(CDir %d %s)", c.LRU, hx.CoqBool(c.SyncAdd))
	}
	cfg := fmt.Sprintf("(mkCfg %s %s %s %s %s %s %s %s %s %s)",
		hx.CoqZ(c.PrefetchSize), hx.CoqZ(c.AsyncSize), hx.CoqZ(c.BlobCS), hx.CoqZ(c.BlobPCS), hx.CoqZ(obs.BlobSize),
		hx.CoqBool(obs.NoPrefetchLM), lm, hx.CoqBool(c.HTTPCache == "memory" || c.SyncAdd), kind(c.FSCache), hx.CoqBool(c.MinChunk == 0))
	fs := make([]string, len(obs.Files))
	for i, f := range obs.Files {
		fs[i] = fmt.Sprintf("(mkFile %s %s %s %s %s %s)", hx.CoqZ(int64(f.ID)), hx.CoqZ(f.Off), hx.CoqZ(f.Size), coqPairs(f.Chunks),
			hx.CoqBool(f.Prio), hx.CoqBool(f.Landmark))
	}
	ops := make([]string, len(c.Ops))
	mounted := false
	for i, o := range c.Ops {
		if c.FS && !mounted && o.Op != "mount" && o.Op != "check" && o.Op != "off" && o.Op != "on" {
			// nothing is mounted yet (only a shrunk script gets here): the harness skips the op; SRel with nothing
			// parked is the model's no-op with the same output
			ops[i] = "SRel"
			continue
		}
		switch o.Op {
		case "mount":
			ops[i] = fmt.Sprintf("SMount %s %s %s", coqFault(o, outOf(obs, i)), hx.CoqBool(c.NoPrefetch), hx.CoqBool(c.NoBG))
			if i < len(obs.Outs) && (obs.Outs[i].Res == "ok" || obs.Outs[i].Res == "stalled") {
				mounted = true
			}
		case "check":
			full := i < len(obs.Outs) && obs.Outs[i].Full
			ops[i] = fmt.Sprintf("SCheck %s %s %s %s", hx.CoqBool(mounted && !o.Bad), hx.CoqBool(c.CheckAlways), hx.CoqBool(c.NoPrefetch), hx.CoqBool(full))
		case "hold":
			ops[i] = "SHold"
		case "settle":
			ops[i] = "SSettle"
		case "refresh":
			ops[i] = "SRefresh"
		case "off":
			ops[i] = "SOff"
		case "on":
			ops[i] = "SOn"
		case "pf":
			ops[i] = fmt.Sprintf("SPf %d %s", o.N, coqFault(o, outOf(obs, i)))
		case "rel":
			ops[i] = "SRel"
		case "wait":
			ops[i] = fmt.Sprintf("SWait %d", o.N)
		case "readpart":
			ops[i] = "SReadPart"
		case "readprio":
			ops[i] = "SReadPrio"
		case "readall":
			ops[i] = "SReadAll"
		case "bg":
			ops[i] = fmt.Sprintf("SBg %d %s %s", o.N, coqFault(o, outOf(obs, i)), hx.CoqBool(o.Intf))
		default:
			ops[i] = "SOn"
		}
	}
	outs := make([]string, len(obs.Outs))
	for i, o := range obs.Outs {
		keys := "None"
		if o.HasKeys {
			keys = "(Some " + coqKeys(o.Keys) + ")"
		}
		outs[i] = fmt.Sprintf("(mkOut %s %s %s %s %s %s %s)", coqRes(o.Res), coqPairs(o.Reqs), hx.CoqZ(o.PfSize), keys, hx.CoqZ(int64(o.Errs)), hx.CoqBool(o.Grew), hx.CoqBool(o.Waited))
	}
	pre := make([]string, len(obs.Pre))
	for i, p := range obs.Pre {
		pre[i] = hx.CoqZ(p)
	}
	return fmt.Sprintf("(%s, %s, %s, %s, %s)", cfg, hx.CoqList(fs), hx.CoqList(pre), hx.CoqList(ops), hx.CoqList(outs))
}

// ---------------------------------------------------------------------------------------------

func execCase(c *Case) (*Obs, []problem) {
	obs := &Obs{LMOff: -1}
	var problems []problem
	func() {
		defer func() {
			if r := recover(); r != nil {
				problems = append(problems, problem{what: fmt.Sprintf("panic: %v", r)})
				if os.Getenv("VERIF_DEBUG") != "" {
					fmt.Fprintf(os.Stderr, "panic: %v\n%s\n", r, debug.Stack())
				}
			}
		}()
		w, err := setup(c, obs)
		if w != nil {
			defer w.teardown()
		}
		if err != nil {
			obs.SetupErr = err.Error()
			problems = append(problems, problem{what: "a well-formed layer could not be built/resolved: " + err.Error()})
			return
		}
		w.run(obs)
		problems = append(problems, w.problems...)
	}()
	return obs, problems
}

type caseJSON struct {
	Case
	Obs *Obs `json:"obs,omitempty"`
}

// Main runs the harness with the given metadata stores (names in generation order).
func Main(stores []string, factories map[string]StoreFactory) {
	ctx := hx.Start()
	storeFactory = factories
	emit := func(c Case) {
		t0 := time.Now()
		obs, problems := execCase(&c)
		if os.Getenv("VERIF_DEBUG") != "" {
			fmt.Fprintf(os.Stderr, "case took %v ops=%v\n", time.Since(t0), c.Ops)
		}
		// pad the outputs when execution broke off, so that the term still type-checks
		for len(obs.Outs) < len(c.Ops) {
			obs.Outs = append(obs.Outs, OpOut{Res: "none"})
		}
		ctx.Count("lm." + c.LM)
		if c.FS {
			ctx.Count("level.fs")
		} else {
			ctx.Count("level.layer")
		}
		ctx.Count("store." + c.Store)
		ctx.Count("cache.http." + c.HTTPCache)
		ctx.Count("cache.fs." + c.FSCache)
		if c.dirCache() {
			if c.SyncAdd {
				ctx.Count("cache.dir.sync")
			} else {
				ctx.Count("cache.dir.async")
			}
		}
		if c.MinChunk > 0 {
			ctx.Count("layout.minchunk")
		}
		if c.Zstd {
			ctx.Count("layout.zstd")
		}
		if c.BlobPCS > c.BlobCS {
			ctx.Count("cfg.pcs>cs")
		}
		for _, f := range c.Files {
			if b := path.Base(f.Name); f.Kind == "reg" && strings.Contains(f.Name, "/") && (b == "stargz.index.json" || strings.HasPrefix(b, ".wh.") || strings.HasSuffix(b, ".landmark")) {
				ctx.Count("files.reserved-name-in-subdir")
			}
		}
		nontrivial := false
		kinds := map[string]bool{}
		for i, o := range c.Ops {
			ctx.Count("op." + o.Op)
			if o.Fault != "" {
				ctx.Count("op." + o.Op + "." + o.Fault)
			}
			if o.Fault == "fail2" && obs.Outs[i].Res == "err" {
				ctx.Count("result.pf.err.second-phase")
			}
			if o.Intf {
				ctx.Count("op.bg.intf")
			}
			if o.N > 1 {
				ctx.Count("op." + o.Op + ".concurrent")
			}
			kinds[o.Op] = true
			out := obs.Outs[i]
			ctx.Count("result." + o.Op + "." + out.Res)
			if o.Op == "pf" && len(out.Reqs) > 0 {
				ctx.Count("result.pf.requests")
				nontrivial = true
			}
			if o.Op == "pf" && len(out.Keys) > 0 {
				ctx.Count("result.pf.keys")
			}
			if o.Op == "check" && out.Waited {
				ctx.Count("result.check.waited")
			}
			if (o.Op == "readprio" || o.Op == "readall") && out.Grew {
				ctx.Count("result." + o.Op + ".grew")
			}
			if (o.Op == "readprio" || o.Op == "readall") && out.Errs > 0 {
				ctx.Count("result." + o.Op + ".errs")
			}
		}
		for _, f := range obs.Files {
			if f.Prio {
				ctx.Count("files.prio")
			}
			if len(f.Chunks) > 1 {
				ctx.Count("files.multichunk")
			}
		}
		term := coqCase(&c, obs)
		id := ctx.Case(term, caseJSON{Case: c}, term, nontrivial && len(kinds) >= 3)
		for _, p := range problems {
			if p.sig != "" {
				ctx.Finding(id, p.sig, p.what, nil)
				ctx.Count("finding." + p.sig)
			} else {
				ctx.Violation(id, p.what, nil)
			}
		}
	}
	if ctx.Replay != "" {
		var c Case
		ctx.LoadReplay(&c)
		emit(c)
		ctx.Finish()
		return
	}
	for i, c := range corpus() {
		c.Store = stores[i%len(stores)]
		emit(c)
	}
	r := hx.NewRng(ctx.Seed*0x2545F4914F6CDD1D + 0x15) // hx seeds n and n+1 give streams shifted by one case
	for i := len(corpus()); i < ctx.N; i++ {
		emit(gen(r.Fork(), stores))
	}
	ctx.Finish()
}

func corpus() []Case {
	base := func() Case {
		return Case{
			Files: []FileSpec{{Name: "d/", Kind: "dir"}, {Name: "d/e", Kind: "reg", Size: 9000}, {Name: "a", Kind: "reg", Size: 25000},
				{Name: "b", Kind: "reg", Size: 100}, {Name: "c", Kind: "reg", Size: 0}, {Name: "z", Kind: "reg", Size: 12000}},
			Prio: []string{"a", "d/e"}, LM: "prefetch", ChunkSize: 10000, PrefetchSize: 5000, BlobCS: 5000,
			Store: "memory", HTTPCache: "memory", FSCache: "memory", LRU: 10,
		}
	}
	var out []Case
	// the plain story: prefetch, wait, prioritized files local, background fetch, everything local offline
	c := base()
	c.Ops = []Op{{Op: "pf"}, {Op: "wait"}, {Op: "readprio"}, {Op: "bg"}, {Op: "off"}, {Op: "readall", Buf: 777}}
	out = append(out, c)
	// no-prefetch landmark: no traffic
	c = base()
	c.LM, c.Prio = "noprefetch", nil
	c.Ops = []Op{{Op: "pf"}, {Op: "wait"}, {Op: "readall"}}
	out = append(out, c)
	// no landmark: configured size, capped
	c = base()
	c.LM, c.Prio, c.PrefetchSize = "none", nil, 12345
	c.Ops = []Op{{Op: "pf"}, {Op: "wait"}, {Op: "bg", N: 3}, {Op: "off"}, {Op: "readall"}}
	out = append(out, c)
	c = base()
	c.LM, c.Prio, c.PrefetchSize, c.BlobPCS = "none", nil, 1<<30, 12000
	c.Ops = []Op{{Op: "pf"}, {Op: "off"}, {Op: "readall"}}
	out = append(out, c)
	// waiting: before prefetch (timeout), stalled prefetch (timeout), after the release
	c = base()
	c.Ops = []Op{{Op: "wait"}, {Op: "wait"}, {Op: "pf", Fault: "stall"}, {Op: "rel"}, {Op: "readprio"}}
	out = append(out, c)
	c = base()
	c.Ops = []Op{{Op: "pf", Fault: "stall", N: 2}, {Op: "wait", N: 3}, {Op: "pf"}, {Op: "rel"}, {Op: "wait"}, {Op: "readprio"}}
	out = append(out, c)
	// async threshold: the waiter is released while the download is parked
	c = base()
	c.AsyncSize = 1000
	c.Ops = []Op{{Op: "pf", Fault: "stall"}, {Op: "wait"}, {Op: "rel"}, {Op: "readprio"}}
	out = append(out, c)
	// ... but not when only the CONFIGURED size exceeds the threshold and the landmark's range does not
	c = base()
	c.AsyncSize, c.PrefetchSize = 400000, 1<<20
	c.Ops = []Op{{Op: "pf", Fault: "stall"}, {Op: "wait"}, {Op: "rel"}, {Op: "wait"}, {Op: "readprio"}}
	out = append(out, c)
	// files partly cached by on-demand reads before the background fetch walks them: it must complete them
	c = base()
	c.ChunkSize = 4096
	c.Ops = []Op{{Op: "readpart"}, {Op: "bg"}, {Op: "off"}, {Op: "readall"}}
	out = append(out, c)
	// ... visibly to the user only when the file is so large that reading one chunk does not pull the rest of its compressed
	// bytes into the blob cache (estargz reads ahead up to 2 MiB): 5 chunks of 1 MiB, the second one read before
	c = base()
	c.Files = []FileSpec{{Name: "a", Kind: "reg", Size: 5 << 20}, {Name: "b", Kind: "reg", Size: 100}}
	c.Prio, c.ChunkSize, c.BlobCS, c.PrefetchSize = []string{"b"}, 1<<20, 1<<19, 1000
	c.Ops = []Op{{Op: "readpart"}, {Op: "bg"}, {Op: "off"}, {Op: "readall", Buf: 1 << 20}}
	out = append(out, c)
	c = base()
	c.ChunkSize, c.FSCache, c.LRU, c.SyncAdd = 4096, "dir", 2, true
	c.Ops = []Op{{Op: "readpart"}, {Op: "pf"}, {Op: "off"}, {Op: "readprio"}, {Op: "on"}, {Op: "bg", N: 2}, {Op: "off"}, {Op: "readall", Buf: 777}}
	out = append(out, c)
	// filesystem level: Mount spawns prefetch and background fetch; the first Check finds the prefetch over
	c = base()
	c.FS = true
	c.Ops = []Op{{Op: "check"}, {Op: "mount"}, {Op: "check"}, {Op: "check", Bad: true}, {Op: "off"}, {Op: "readall"}, {Op: "check"}}
	out = append(out, c)
	// the prefetch spawned by Mount is parked: the first Check waits (bounded by the timeout), the second does not
	c = base()
	c.FS, c.NoBG, c.LabelSize = true, true, true
	c.Ops = []Op{{Op: "mount", Fault: "stall"}, {Op: "check"}, {Op: "check"}, {Op: "rel"}, {Op: "check"}, {Op: "readprio"}}
	out = append(out, c)
	// ... unless the async threshold released the waiter; connectivity lost with check_always: Check reports it at once
	c = base()
	c.FS, c.NoBG, c.AsyncSize, c.CheckAlways = true, true, 1000, true
	c.Ops = []Op{{Op: "mount", Fault: "stall"}, {Op: "check"}, {Op: "off"}, {Op: "check"}, {Op: "on"}, {Op: "rel"}, {Op: "check"}}
	out = append(out, c)
	// prefetch disabled in the filesystem: nothing is fetched, Check never waits
	c = base()
	c.FS, c.NoBG, c.NoPrefetch = true, true, true
	c.Ops = []Op{{Op: "mount"}, {Op: "check"}, {Op: "readprio"}, {Op: "bg"}, {Op: "off"}, {Op: "readall"}}
	out = append(out, c)
	// reserved base names below the root are ordinary files: prioritized ones are prefetched, all are fetched in the
	// background; the reads go through a cold compressed-blob cache (Refresh) with the registry off
	c = base()
	c.Files = append(c.Files, FileSpec{Name: "d/stargz.index.json", Kind: "reg", Size: 7000}, FileSpec{Name: "m/", Kind: "dir"},
		FileSpec{Name: "m/.prefetch.landmark", Kind: "reg", Size: 300}, FileSpec{Name: "m/.wh.gone", Kind: "reg", Size: 0},
		FileSpec{Name: "d/.no.prefetch.landmark", Kind: "reg", Size: 5000})
	c.Prio = []string{"d/stargz.index.json", "a", "m/.prefetch.landmark"}
	c.Ops = []Op{{Op: "pf"}, {Op: "refresh"}, {Op: "off"}, {Op: "readprio"}, {Op: "on"}, {Op: "bg"}, {Op: "refresh"}, {Op: "off"}, {Op: "readall", Buf: 777}}
	out = append(out, c)
	c = base()
	c.LM, c.Prio = "noprefetch", nil
	c.Files = append(c.Files, FileSpec{Name: "d/g/", Kind: "dir"}, FileSpec{Name: "d/g/stargz.index.json", Kind: "reg", Size: 12000},
		FileSpec{Name: "d/.wh..wh..opq", Kind: "reg", Size: 0}, FileSpec{Name: "d/g/.prefetch.landmark", Kind: "reg", Size: 1})
	c.FS, c.FSCache, c.LRU, c.SyncAdd = true, "dir", 2, true
	c.Ops = []Op{{Op: "mount"}, {Op: "check"}, {Op: "refresh"}, {Op: "off"}, {Op: "readall"}}
	out = append(out, c)
	// prefetch fails in its second phase (no landmark, the configured size ends inside "a"): the registry serves the
	// download and fails behind it; it recovers, the background fetch succeeds, and then everything must read offline
	c = base()
	c.LM, c.Prio, c.PrefetchSize, c.BlobCS = "none", nil, 22000, 2000
	c.Ops = []Op{{Op: "pf", Fault: "fail2"}, {Op: "wait"}, {Op: "bg"}, {Op: "off"}, {Op: "readall"}}
	out = append(out, c)
	c = base()
	c.LM, c.Prio, c.PrefetchSize, c.BlobCS, c.BlobPCS, c.FSCache, c.LRU, c.SyncAdd = "none", nil, 4000, 700, 2100, "dir", 2, true
	c.Ops = []Op{{Op: "pf", N: 2, Fault: "fail2"}, {Op: "bg", N: 2}, {Op: "off"}, {Op: "readall", Buf: 777}}
	out = append(out, c)
	// registry failure during prefetch: waiting returns, later calls do not run the body again
	c = base()
	c.Ops = []Op{{Op: "pf", Fault: "fail", FailFrom: 0}, {Op: "wait"}, {Op: "pf"}, {Op: "readprio"}, {Op: "bg", Fault: "fail"}, {Op: "bg"}, {Op: "readall"}}
	out = append(out, c)
	// directory caches, one-entry LRU, persistence held back after prefetch (F25), then settled
	c = base()
	c.HTTPCache, c.FSCache, c.LRU = "dir", "dir", 1
	c.Ops = []Op{{Op: "hold"}, {Op: "pf"}, {Op: "readprio"}, {Op: "settle"}, {Op: "readprio"}, {Op: "bg", Intf: true}, {Op: "off"}, {Op: "readall"}}
	out = append(out, c)
	// the same with synchronous persistence: no window
	c = base()
	c.HTTPCache, c.FSCache, c.LRU, c.SyncAdd = "dir", "dir", 1, true
	c.Ops = []Op{{Op: "pf"}, {Op: "readprio"}, {Op: "bg"}, {Op: "off"}, {Op: "readall", Buf: 4096}}
	out = append(out, c)
	// min-chunk-size layout, zstd, hardlink named in the list
	c = base()
	c.MinChunk, c.Zstd = 3000, true
	c.Files = append(c.Files, FileSpec{Name: "ln", Kind: "link", Target: "z"})
	c.Prio = []string{"ln", "b"}
	c.Ops = []Op{{Op: "pf"}, {Op: "readprio"}, {Op: "bg", Intf: true}, {Op: "off"}, {Op: "readall"}}
	out = append(out, c)
	return out
}
