// Package prefetchx: the C15 harness proper (shared by cmd/prefetch of module verif/harness, which links the memory
// metadata store, and cmd/prefetchdb of module verif/harnesscmd, which adds the bbolt store living under /repo/cmd).
package prefetchx

import (
	"archive/tar"
	"bytes"
	"compress/gzip"
	"context"
	"crypto/sha256"
	"fmt"
	"hash/fnv"
	"io"
	"os"
	"path"
	"path/filepath"
	"sort"
	"strings"
	"sync"
	"sync/atomic"
	"time"

	"github.com/containerd/containerd/v2/core/remotes/docker"
	"github.com/containerd/containerd/v2/pkg/reference"
	"github.com/containerd/stargz-snapshotter/cache"
	"github.com/containerd/stargz-snapshotter/estargz"
	"github.com/containerd/stargz-snapshotter/estargz/zstdchunked"
	stargzfs "github.com/containerd/stargz-snapshotter/fs"
	"github.com/containerd/stargz-snapshotter/fs/config"
	"github.com/containerd/stargz-snapshotter/fs/layer"
	"github.com/containerd/stargz-snapshotter/fs/reader"
	"github.com/containerd/stargz-snapshotter/fs/remote"
	"github.com/containerd/stargz-snapshotter/fs/source"
	"github.com/containerd/stargz-snapshotter/metadata"
	memorymetadata "github.com/containerd/stargz-snapshotter/metadata/memory"
	"github.com/containerd/stargz-snapshotter/snapshot"
	"github.com/containerd/stargz-snapshotter/task"
	"github.com/klauspost/compress/zstd"
	digest "github.com/opencontainers/go-digest"
	ocispec "github.com/opencontainers/image-spec/specs-go/v1"
	"verif/harness/hx"
)

// ---------------------------------------------------------------------------------------------
// in-memory registry with a request log

type registry struct {
	blob []byte

	mu       sync.Mutex
	gen      int        // number of fetchers handed out
	log      [][2]int64 // (offset, size) of every Fetch
	off      bool       // registry unreachable
	failFrom int64      // >= 0: requests whose range reaches an offset >= failFrom fail
	stall    bool       // Fetch blocks until release (or its context ends)
	gate     chan struct{}
	hits     int32 // number of Fetch calls currently blocked at the gate
	hitCh    chan struct{}
}

func newRegistry(blob []byte) *registry {
	return &registry{blob: blob, failFrom: -1, gate: make(chan struct{}), hitCh: make(chan struct{}, 1024)}
}

func (g *registry) Handle(ctx context.Context, desc ocispec.Descriptor) (remote.Fetcher, int64, error) {
	g.mu.Lock()
	defer g.mu.Unlock()
	if g.off {
		return nil, 0, fmt.Errorf("registry unreachable")
	}
	// every resolution (Resolve, Refresh) yields a fetcher with cache keys of its own, as a new URL would: after a
	// Refresh the compressed-blob cache is cold
	g.gen++
	return &genFetcher{g, g.gen}, int64(len(g.blob)), nil
}

type genFetcher struct {
	*registry
	gen int
}

func (f *genFetcher) GenID(off int64, size int64) string {
	return fmt.Sprintf("blob%d-%d-%d", f.gen, off, size)
}

func (g *registry) Fetch(ctx context.Context, off int64, size int64) (io.ReadCloser, error) {
	g.mu.Lock()
	g.log = append(g.log, [2]int64{off, size})
	stall, gate := g.stall, g.gate
	g.mu.Unlock()
	if stall {
		// parked first; whether the registry answers is decided when the request is released
		atomic.AddInt32(&g.hits, 1)
		g.hitCh <- struct{}{}
		select {
		case <-gate:
		case <-ctx.Done():
			atomic.AddInt32(&g.hits, -1)
			return nil, ctx.Err()
		}
		atomic.AddInt32(&g.hits, -1)
	}
	g.mu.Lock()
	down, failFrom := g.off, g.failFrom
	g.mu.Unlock()
	if down {
		return nil, fmt.Errorf("registry unreachable")
	}
	if err := ctx.Err(); err != nil {
		return nil, err
	}
	if failFrom >= 0 && off+size > failFrom {
		return nil, fmt.Errorf("registry error")
	}
	if off < 0 || size < 0 || off+size > int64(len(g.blob)) {
		return nil, fmt.Errorf("bad range")
	}
	return io.NopCloser(bytes.NewReader(g.blob[off : off+size])), nil
}

func (g *registry) Check() error {
	g.mu.Lock()
	defer g.mu.Unlock()
	if g.off {
		return fmt.Errorf("registry unreachable")
	}
	return nil
}

// GenID: the cache key of the current (latest) fetcher.
func (g *registry) GenID(off int64, size int64) string {
	g.mu.Lock()
	defer g.mu.Unlock()
	return fmt.Sprintf("blob%d-%d-%d", g.gen, off, size)
}

func (g *registry) logLen() int {
	g.mu.Lock()
	defer g.mu.Unlock()
	return len(g.log)
}

// logFrom returns the requests logged since position i, in arrival order.
func (g *registry) logFrom(i int) [][2]int64 {
	g.mu.Lock()
	defer g.mu.Unlock()
	return append([][2]int64{}, g.log[i:]...)
}

func (g *registry) set(f func()) {
	g.mu.Lock()
	f()
	g.mu.Unlock()
}

// ---------------------------------------------------------------------------------------------
// deadlines. No verdict of this harness may depend on a short wall-clock wait: on a loaded machine a goroutine can stay
// unscheduled for seconds. Every wait whose expiry is reported waits for the event itself with a generous deadline; on the
// unchanged code the event arrives at once, so only a broken tree pays. To keep such a run bounded, after a few expiries
// the remaining waits of the process use a short deadline.

var expiries int32

func patience() time.Duration {
	if atomic.LoadInt32(&expiries) >= 1 {
		return 5 * time.Second
	}
	return 150 * time.Second
}

func expired() { atomic.AddInt32(&expiries, 1) }

// ---------------------------------------------------------------------------------------------
// persist tracking of the directory caches (hook of C11 in cache/: scheduling points of the persist closure)

type persistCtl struct {
	root     string
	mu       sync.Mutex
	inflight int
	hold     bool
	holdCh   chan struct{}
}

var pctl = &persistCtl{holdCh: make(chan struct{})}

func init() {
	cache.VerifPersistHook = func(key string, stage int) {
		switch stage {
		case 0:
			pctl.mu.Lock()
			pctl.inflight++
			hold, ch := pctl.hold, pctl.holdCh
			pctl.mu.Unlock()
			if hold {
				<-ch
			}
		case 3:
			pctl.mu.Lock()
			pctl.inflight--
			pctl.mu.Unlock()
		}
	}
}

func (p *persistCtl) wipDirs() []string {
	var out []string
	for _, c := range []string{"httpcache", "fscache"} {
		ds, _ := filepath.Glob(filepath.Join(p.root, c, "*", "wip"))
		out = append(out, ds...)
	}
	return out
}

func (p *persistCtl) setHold(h bool) {
	p.mu.Lock()
	defer p.mu.Unlock()
	if h && !p.hold {
		p.hold = true
		p.holdCh = make(chan struct{})
	} else if !h && p.hold {
		p.hold = false
		close(p.holdCh)
	}
}

// settle waits until no persist closure is running. (A commit increments the counter synchronously only in
// SyncAdd mode; in async mode the goroutine may not have reached stage 0 yet, so we also require stability.)
func (p *persistCtl) settle() bool {
	deadline := time.Now().Add(patience())
	stable := 0
	for time.Now().Before(deadline) {
		p.mu.Lock()
		n := p.inflight
		p.mu.Unlock()
		// every Add creates its work-in-progress file at once and the persist closure renames (or removes) it at
		// its end: a closure that was spawned but has not reached its first scheduling point shows up here
		if n == 0 {
			for _, d := range p.wipDirs() {
				if es, err := os.ReadDir(d); err == nil && len(es) > 0 {
					n = len(es)
					break
				}
			}
		}
		if n == 0 {
			stable++
			if stable >= 3 {
				return true
			}
		} else {
			stable = 0
		}
		time.Sleep(300 * time.Microsecond)
	}
	expired()
	return false
}

// ---------------------------------------------------------------------------------------------
// building the layer

func content(name string, size int) []byte {
	h := fnv.New64a()
	h.Write([]byte(name))
	return hx.NewRng(h.Sum64()).Bytes(size)
}

func buildTar(files []FileSpec) []byte {
	var buf bytes.Buffer
	tw := tar.NewWriter(&buf)
	for _, f := range files {
		h := &tar.Header{Name: f.Name, Mode: 0o644, ModTime: time.Unix(1, 0)}
		switch f.Kind {
		case "dir":
			h.Typeflag = tar.TypeDir
			h.Mode = 0o755
			if !strings.HasSuffix(h.Name, "/") {
				h.Name += "/"
			}
		case "sym":
			h.Typeflag = tar.TypeSymlink
			h.Linkname = f.Target
		case "link":
			h.Typeflag = tar.TypeLink
			h.Linkname = f.Target
		default:
			h.Typeflag = tar.TypeReg
			h.Size = int64(f.Size)
		}
		if err := tw.WriteHeader(h); err != nil {
			panic(err)
		}
		if f.Kind == "reg" {
			tw.Write(content(f.Name, f.Size))
		}
	}
	tw.Close()
	return buf.Bytes()
}

type built struct {
	blob      []byte
	tocDigest digest.Digest
}

func buildLayer(c *Case) (*built, error) {
	tb := buildTar(c.Files)
	sr := io.NewSectionReader(bytes.NewReader(tb), 0, int64(len(tb)))
	if c.LM == "none" {
		// legacy stargz: the writer without the landmark-adding front end
		var out bytes.Buffer
		var w *estargz.Writer
		if c.Zstd {
			w = estargz.NewWriterWithCompressor(&out, &zstdchunked.Compressor{CompressionLevel: zstd.SpeedFastest})
		} else {
			w = estargz.NewWriterLevel(&out, gzip.BestSpeed)
		}
		w.ChunkSize = c.ChunkSize
		w.MinChunkSize = c.MinChunk
		if err := w.AppendTar(sr); err != nil {
			return nil, err
		}
		d, err := w.Close()
		if err != nil {
			return nil, err
		}
		return &built{blob: out.Bytes(), tocDigest: d}, nil
	}
	opts := []estargz.Option{estargz.WithChunkSize(c.ChunkSize), estargz.WithMinChunkSize(c.MinChunk)}
	if c.Zstd {
		opts = append(opts, estargz.WithCompression(&zstdCompression{
			Compressor: &zstdchunked.Compressor{CompressionLevel: zstd.SpeedFastest}, Decompressor: &zstdchunked.Decompressor{}}))
	} else {
		opts = append(opts, estargz.WithCompressionLevel(gzip.BestSpeed))
	}
	if c.LM == "prefetch" {
		opts = append(opts, estargz.WithPrioritizedFiles(c.Prio))
	}
	b, err := estargz.Build(sr, opts...)
	if err != nil {
		return nil, err
	}
	defer b.Close()
	data, err := io.ReadAll(b)
	if err != nil {
		return nil, err
	}
	return &built{blob: data, tocDigest: b.TOCDigest()}, nil
}

type zstdCompression struct {
	*zstdchunked.Compressor
	*zstdchunked.Decompressor
}

// ---------------------------------------------------------------------------------------------
// the layer under test

type fileInfo struct {
	FileObs
	name    string
	content []byte
}

type world struct {
	c        *Case
	reg      *registry
	tmp      string
	tm       *task.BackgroundTaskManager
	resolver *layer.Resolver
	l        layer.Layer
	vr       *reader.VerifiableReader
	rd       reader.Reader
	blob     remote.Blob
	files    []*fileInfo
	problems []problem
	timeout  time.Duration

	pfRunning  []chan error // prefetch calls that have not returned yet
	pfMark     int          // request-log position when the running prefetch was started
	pfBodyOK   bool         // a prefetch body returned nil
	pfBodyRan  bool
	held       bool
	bgRan      bool
	bgOK       bool
	anyTimeout bool
	built      *built
	refspec    reference.Spec
	desc       ocispec.Descriptor
	fsys       snapshot.FileSystem
	armOnce    sync.Once
	armFault   func()
	mounted    bool
	labels     map[string]string
	storeDone  func()
}

type problem struct {
	sig  string // "" = violation
	what string
}

func (w *world) bad(format string, a ...any) {
	w.problems = append(w.problems, problem{what: fmt.Sprintf(format, a...)})
}

func (w *world) finding(sig, format string, a ...any) {
	w.problems = append(w.problems, problem{sig: sig, what: fmt.Sprintf(format, a...)})
}

// StoreFactory makes a metadata store for one case (dir = scratch directory of the case) and its cleanup.
type StoreFactory func(dir string) (metadata.Store, func(), error)

// MemoryStore is the factory of the in-memory metadata store.
func MemoryStore(dir string) (metadata.Store, func(), error) {
	return memorymetadata.NewReader, func() {}, nil
}

var storeFactory = map[string]StoreFactory{}

func cleanName(n string) string { return strings.TrimPrefix(path.Clean("/"+n), "/") }

func dbg(t0 time.Time, what string) {
	if os.Getenv("VERIF_DEBUG") == "2" {
		fmt.Fprintf(os.Stderr, "  %s at %v\n", what, time.Since(t0))
	}
}

func setup(c *Case, obs *Obs) (*world, error) {
	t0 := time.Now()
	defer func() { dbg(t0, "setup done") }()
	b, err := buildLayer(c)
	dbg(t0, "built")
	if err != nil {
		return nil, fmt.Errorf("build: %w", err)
	}
	w := &world{c: c, reg: newRegistry(b.blob), timeout: 40 * time.Millisecond}
	w.tmp, err = os.MkdirTemp("", "verif-c15-")
	if err != nil {
		return nil, err
	}
	pctl.setHold(false)
	pctl.root = w.tmp
	w.tm = task.NewBackgroundTaskManager(2, 2*time.Millisecond)
	cfg := config.Config{
		HTTPCacheType:     c.HTTPCache,
		FSCacheType:       c.FSCache,
		PrefetchSize:      c.PrefetchSize,
		PrefetchAsyncSize: c.AsyncSize,
		BlobConfig:        config.BlobConfig{ChunkSize: c.BlobCS, PrefetchChunkSize: c.BlobPCS, ValidInterval: 3600, FetchTimeoutSec: 3600},
		DirectoryCacheConfig: config.DirectoryCacheConfig{
			MaxLRUCacheEntry: c.LRU, MaxCacheFds: c.LRU, SyncAdd: c.SyncAdd,
		},
	}
	mk := storeFactory[c.Store]
	if mk == nil {
		return nil, fmt.Errorf("metadata store %q is not linked into this harness", c.Store)
	}
	store, storeDone, err := mk(w.tmp)
	if err != nil {
		return nil, err
	}
	w.storeDone = storeDone
	w.built = b
	w.refspec, err = reference.Parse("registry.test/img:latest")
	if err != nil {
		return nil, err
	}
	sum := sha256.Sum256(b.blob)
	w.desc = ocispec.Descriptor{Digest: digest.NewDigestFromBytes(digest.SHA256, sum[:]), Size: int64(len(b.blob)), MediaType: ocispec.MediaTypeImageLayerGzip}
	if c.FS {
		// filesystem level: the real fs.NewFilesystem; the layer is resolved by the "mount" op through the real Mount.
		// The metadata store is wrapped so that the registry fault of the mount op is armed when the TOC has been read,
		// i.e. for the prefetch that Mount spawns and not for the resolution of the layer.
		cfg.NoPrefetch, cfg.NoBackgroundFetch = c.NoPrefetch, c.NoBG
		cfg.NoPrometheus = true
		cfg.AllowNoVerification = true
		cfg.BlobConfig.CheckAlways = c.CheckAlways
		if c.LabelSize {
			cfg.PrefetchSize = c.PrefetchSize/2 + 7 // overridden by the label of the mount op
		}
		wrapped := func(sr *io.SectionReader, opts ...metadata.Option) (metadata.Reader, error) {
			r, err := store(sr, opts...)
			w.armOnce.Do(func() {
				w.pfMark = w.reg.logLen()
				if f := w.armFault; f != nil {
					w.reg.set(f)
				}
			})
			return r, err
		}
		noHosts := func(reference.Spec) ([]docker.RegistryHost, error) {
			return nil, fmt.Errorf("no registry host configured")
		}
		getSources := func(labels map[string]string) ([]source.Source, error) {
			return []source.Source{{Hosts: noHosts, Name: w.refspec, Target: w.desc, Manifest: ocispec.Manifest{Layers: []ocispec.Descriptor{w.desc}}}}, nil
		}
		w.fsys, err = stargzfs.NewFilesystem(w.tmp, cfg, stargzfs.WithResolveHandler("mem", w.reg), stargzfs.WithMetadataStore(wrapped),
			stargzfs.WithGetSources(getSources), stargzfs.WithOverlayOpaqueType(layer.OverlayOpaqueAll))
		if err != nil {
			return nil, err
		}
		var tm *task.BackgroundTaskManager
		w.resolver, tm = stargzfs.VerifPartsC15(w.fsys)
		if w.resolver == nil || tm == nil {
			return nil, fmt.Errorf("filesystem parts not reachable")
		}
		w.tm = tm
		tm.VerifSetSilencePeriodC15(2 * time.Millisecond)
		layer.VerifSetPrefetchTimeoutC15(w.resolver, w.timeout)
		obs.LMOff = -1
		return w, nil
	}
	w.resolver, err = layer.NewResolver(w.tmp, w.tm, cfg, map[string]remote.Handler{"mem": w.reg}, store, layer.OverlayOpaqueAll, nil)
	if err != nil {
		return nil, err
	}
	layer.VerifSetPrefetchTimeoutC15(w.resolver, w.timeout)
	w.l, err = w.resolver.Resolve(context.Background(), nil, w.refspec, w.desc)
	if err != nil {
		return nil, fmt.Errorf("resolve: %w", err)
	}
	dbg(t0, "resolved")
	if c.SkipVerify {
		w.l.SkipVerify()
	} else if err := w.l.Verify(b.tocDigest); err != nil {
		return nil, fmt.Errorf("verify: %w", err)
	}
	if err := w.observe(obs); err != nil {
		return nil, err
	}
	return w, nil
}

// observe: the parts of the resolved layer and its layout as the metadata reader shows it.
func (w *world) observe(obs *Obs) error {
	c := w.c
	w.vr, w.rd, w.blob = layer.VerifLayerPartsC15(w.l)
	if w.vr == nil || w.rd == nil || w.blob == nil {
		return fmt.Errorf("layer parts not reachable")
	}

	// observe the layout through the metadata reader
	obs.BlobSize = w.blob.Size()
	obs.LMOff = -1
	mr := w.vr.Metadata()
	if _, _, err := mr.GetChild(mr.RootID(), estargz.NoPrefetchLandmark); err == nil {
		obs.NoPrefetchLM = true
	}
	if id, _, err := mr.GetChild(mr.RootID(), estargz.PrefetchLandmark); err == nil {
		if off, err := mr.GetOffset(id); err == nil {
			obs.LMOff = off
		}
	}
	prio := map[string]bool{}
	if c.LM == "prefetch" {
		for _, p := range c.Prio {
			prio[cleanName(p)] = true
		}
	}
	kind := map[string]FileSpec{}
	for _, f := range c.Files {
		kind[cleanName(f.Name)] = f
	}
	seen := map[uint32]bool{}
	var walk func(dir uint32, prefix string, depth int) error
	walk = func(dir uint32, prefix string, depth int) error {
		if depth > 64 {
			return fmt.Errorf("tree too deep")
		}
		type ch struct {
			name string
			id   uint32
			mode os.FileMode
		}
		var cs []ch
		if err := mr.ForeachChild(dir, func(name string, id uint32, mode os.FileMode) bool {
			cs = append(cs, ch{name, id, mode})
			return true
		}); err != nil {
			return err
		}
		for _, x := range cs {
			full := path.Join(prefix, x.name)
			if x.mode.IsDir() {
				if dir == mr.RootID() && x.name == "" {
					continue
				}
				if err := walk(x.id, full, depth+1); err != nil {
					return err
				}
				continue
			}
			if !x.mode.IsRegular() {
				continue
			}
			if dir == mr.RootID() && (x.name == estargz.TOCTarName) {
				continue
			}
			spec, known := kind[full]
			if known && spec.Kind == "link" {
				// a hardlink shares the id of its target; prioritizing the link prioritizes the target's data
				if prio[full] {
					for _, fi := range w.files {
						if fi.ID == x.id {
							fi.Prio = true
						}
					}
					prio[fmt.Sprintf("#id%d", x.id)] = true
				}
				continue
			}
			if seen[x.id] {
				continue
			}
			seen[x.id] = true
			attr, err := mr.GetAttr(x.id)
			if err != nil {
				return err
			}
			off, err := mr.GetOffset(x.id)
			if err != nil {
				return err
			}
			fi := &fileInfo{name: full}
			fi.ID, fi.Off, fi.Size, fi.Name = x.id, off, attr.Size, full
			fi.Prio = prio[full] || prio[fmt.Sprintf("#id%d", x.id)]
			fi.Landmark = dir == mr.RootID() && (x.name == estargz.PrefetchLandmark || x.name == estargz.NoPrefetchLandmark)
			if known && spec.Kind == "reg" {
				fi.content = content(spec.Name, spec.Size)
			} else if fi.Landmark {
				fi.content = []byte{0xf}
			} else {
				return fmt.Errorf("regular file %q in the layer has no source entry", full)
			}
			fr, err := mr.OpenFile(x.id)
			if err != nil {
				return err
			}
			var nr int64
			for nr < attr.Size && len(fi.Chunks) < 100000 {
				co, cs, _, ok := fr.ChunkEntryForOffset(nr)
				if !ok || cs <= 0 {
					break
				}
				fi.Chunks = append(fi.Chunks, [2]int64{co, cs})
				nr = co + cs
			}
			w.files = append(w.files, fi)
		}
		return nil
	}
	if err := walk(mr.RootID(), "", 0); err != nil {
		return fmt.Errorf("walk: %w", err)
	}
	// hardlinks listed before their target in the walk: second pass for the prio mark
	for _, fi := range w.files {
		if prio[fmt.Sprintf("#id%d", fi.ID)] {
			fi.Prio = true
		}
	}
	sort.Slice(w.files, func(i, j int) bool { return w.files[i].ID < w.files[j].ID })
	for _, fi := range w.files {
		obs.Files = append(obs.Files, fi.FileObs)
	}
	return nil
}

func (w *world) teardown() {
	t0 := time.Now()
	defer func() { dbg(t0, "teardown done") }()
	w.reg.set(func() { w.reg.stall = false; w.reg.off = false; w.reg.failFrom = -1 })
	select {
	case <-w.reg.gate:
	default:
		close(w.reg.gate)
	}
	pctl.setHold(false)
	for _, ch := range w.pfRunning {
		select {
		case <-ch:
		case <-time.After(10 * time.Second):
		}
	}
	pctl.settle()
	if w.fsys != nil {
		stargzfs.VerifForgetC15(w.fsys, mountpoint)
		stargzfs.VerifNoFuseC15(mountpoint, false)
	} else if w.l != nil {
		w.l.Close()
	}
	if w.storeDone != nil {
		w.storeDone()
	}
	os.RemoveAll(w.tmp)
}

// httpChunks: starts of the registry chunks present in the compressed-blob cache.
func (w *world) httpChunks() []int64 {
	bc := remote.VerifBlobCacheC15(w.blob)
	var out []int64
	size := w.blob.Size()
	for b := int64(0); b < size; b += w.c.BlobCS {
		e := b + w.c.BlobCS - 1
		if e >= size {
			e = size - 1
		}
		if r, err := bc.Get(w.reg.GenID(b, e-b+1)); err == nil {
			r.Close()
			out = append(out, b)
		}
	}
	return out
}

// fsKeys: (id, chunk offset, chunk size) of the chunks present in the chunk cache.
func (w *world) fsKeys() [][3]int64 {
	fc := w.vr.VerifCacheC15()
	out := [][3]int64{}
	for _, fi := range w.files {
		for _, ch := range fi.Chunks {
			if r, err := fc.Get(reader.VerifGenIDC15(fi.ID, ch[0], ch[1])); err == nil {
				// a hit must hold the whole chunk
				p := make([]byte, ch[1])
				n, _ := r.ReadAt(p, 0)
				r.Close()
				if int64(n) == ch[1] {
					out = append(out, [3]int64{int64(fi.ID), ch[0], ch[1]})
					if !bytes.Equal(p, fi.content[ch[0]:ch[0]+ch[1]]) {
						w.bad("chunk cache holds wrong bytes for %s chunk (%d,%d)", fi.name, ch[0], ch[1])
					}
				}
			}
		}
	}
	return out
}

// readFiles reads the selected files completely through the reader the FUSE nodes use.
func (w *world) readFiles(sel func(*fileInfo) bool, buf int) (errs int, grew bool, n int) {
	mark := w.reg.logLen()
	for _, fi := range w.files {
		if !sel(fi) {
			continue
		}
		n++
		ra, err := w.rd.OpenFile(fi.ID)
		if err != nil {
			errs++
			continue
		}
		got := make([]byte, 0, fi.Size)
		failed := false
		step := int64(buf)
		if step <= 0 {
			step = fi.Size
		}
		if step < 64 && fi.Size > 2000 {
			step = 777 // byte-wise reads only on small files
		}
		for off := int64(0); off < fi.Size; off += step {
			l := step
			if off+l > fi.Size {
				l = fi.Size - off
			}
			p := make([]byte, l)
			m, err := ra.ReadAt(p, off)
			if err != nil && err != io.EOF || int64(m) != l {
				if os.Getenv("VERIF_DEBUG") != "" {
					fmt.Fprintf(os.Stderr, "read %s off=%d len=%d: n=%d err=%v\n", fi.name, off, l, m, err)
				}
				failed = true
				break
			}
			got = append(got, p...)
		}
		if failed {
			errs++
			continue
		}
		if !bytes.Equal(got, fi.content) {
			w.bad("file %s read back with wrong contents", fi.name)
		}
	}
	return errs, w.reg.logLen() > mark, n
}

func resOf(err error) string {
	if err == nil {
		return "ok"
	}
	return "err"
}

// collectPrefetch joins the prefetch calls that are running; "err" if any returned an error.
func (w *world) collectPrefetch() (string, bool) {
	res := "ok"
	for _, ch := range w.pfRunning {
		select {
		case err := <-ch:
			if err != nil {
				res = "err"
			}
		case <-time.After(patience()):
			expired()
			w.bad("Prefetch did not return")
			return "hang", false
		}
	}
	w.pfRunning = nil
	return res, true
}

func (w *world) afterPrefetchBody(res string, out *OpOut) {
	w.pfBodyRan = true
	w.pfBodyOK = res == "ok"
	out.Reqs = w.reg.logFrom(w.pfMark)
	out.PfSize = w.l.Info().PrefetchSize
	if !w.held {
		pctl.settle()
		out.Keys = w.fsKeys()
		out.HasKeys = true
	}
	if w.c.FS && !w.c.NoBG {
		// the background fetch spawned by Mount runs concurrently: the requests cannot be attributed
		out.Reqs = nil
		return
	}
	w.checkPrefetchTraffic(out.Reqs, res)
}

// effectiveRange: the range a prefetch of this layer has to cover, computed from the layer and the configuration
// alone (-1 = none: no-prefetch landmark); haveLM = it comes from a prefetch landmark.
func (w *world) effectiveRange() (want int64, haveLM bool) {
	mr := w.vr.Metadata()
	if _, _, err := mr.GetChild(mr.RootID(), estargz.NoPrefetchLandmark); err == nil {
		return -1, false
	}
	want = w.c.PrefetchSize
	if size := w.blob.Size(); want > size {
		want = size
	}
	if id, _, err := mr.GetChild(mr.RootID(), estargz.PrefetchLandmark); err == nil {
		if off, err := mr.GetOffset(id); err == nil {
			return off, true
		}
	}
	return want, false
}

// secondPhaseFrom: the first blob offset behind the registry-chunk rounding of the prefetch range. A registry that
// fails from there serves the whole download of blob.Cache and fails whatever the decompress-and-cache phase reads behind it.
func (w *world) secondPhaseFrom() int64 {
	want, _ := w.effectiveRange()
	if want < 1 {
		want = 1
	}
	cs := w.c.BlobCS
	limit := (want + cs - 1) / cs * cs
	if size := w.blob.Size(); limit > size {
		limit = size
	}
	return limit
}

// model-free oracle for the traffic of a prefetch body: clauses 2 and 3 of the property.
func (w *world) checkPrefetchTraffic(reqs [][2]int64, res string) {
	c := w.c
	mr := w.vr.Metadata()
	size := w.blob.Size()
	_, _, errNP := mr.GetChild(mr.RootID(), estargz.NoPrefetchLandmark)
	if errNP == nil {
		if len(reqs) > 0 {
			w.bad("layer with a no-prefetch landmark caused %d registry request(s) during Prefetch", len(reqs))
		}
		return
	}
	want := c.PrefetchSize
	if want > size {
		want = size
	}
	haveLM := false
	if id, _, err := mr.GetChild(mr.RootID(), estargz.PrefetchLandmark); err == nil {
		off, err := mr.GetOffset(id)
		if err != nil {
			return
		}
		want = off
		haveLM = true
	}
	if want < 0 {
		want = 0
	}
	// every request stays inside the registry-chunk rounding of [0,want)
	limit := ((want + c.BlobCS - 1) / c.BlobCS) * c.BlobCS
	if want == 0 {
		limit = c.BlobCS // cacheAt(0,0) rounds the empty range up to the first chunk
	}
	if limit > size {
		limit = size
	}
	if haveLM {
		// everything prioritized lies before the landmark: neither the download nor the decompression of the
		// prioritized files may touch anything behind it. (Without a landmark, files that start inside the
		// configured size are decompressed completely, which legitimately reads behind it.)
		for _, r := range reqs {
			if r[0] < 0 || r[1] <= 0 || r[0]+r[1] > limit {
				w.bad("Prefetch requested [%d,+%d) outside the target range [0,%d) (rounded to %d)", r[0], r[1], want, limit)
			}
		}
	}
	if res != "ok" {
		return
	}
	// after success every byte of [0,want) is in the compressed-blob cache
	if !w.held {
		have := map[int64]bool{}
		for _, b := range w.httpChunks() {
			have[b] = true
		}
		for b := int64(0); b < want && b < size; b += c.BlobCS {
			if !have[b] {
				w.bad("after a successful Prefetch of [0,%d) the blob chunk at %d is not cached", want, b)
				break
			}
		}
	}
}

// awaitPrefetch waits until every running Prefetch call returned, or a request is parked at the registry gate.
func (w *world) awaitPrefetch() (stalled bool) {
	deadline := time.After(patience())
	for {
		allDone := true
		for _, ch := range w.pfRunning {
			if len(ch) == 0 {
				allDone = false
			}
		}
		if allDone {
			return false
		}
		select {
		case <-w.reg.hitCh:
			return true
		case <-deadline:
			expired()
			w.bad("Prefetch neither returned nor reached the registry")
			return false
		case <-time.After(200 * time.Microsecond):
			if atomic.LoadInt32(&w.reg.hits) > 0 {
				return true
			}
		}
	}
}

const mountpoint = "/verif-c15/mnt"

func (w *world) run(obs *Obs) {
	c := w.c
	pre := false
	t00 := time.Now()
	for i := range c.Ops {
		o := c.Ops[i]
		var out OpOut
		if c.FS && !w.mounted && o.Op != "mount" && o.Op != "check" && o.Op != "off" && o.Op != "on" {
			out.Res = "none"
			obs.Outs = append(obs.Outs, out)
			continue
		}
		switch o.Op {
		case "mount":
			// the real fs.Mount (minus the FUSE server): sources, prefetch-size label, resolution, the prefetch and
			// background fetch it spawns, verification, registration of the layer under the mountpoint
			if !c.FS || w.mounted {
				out.Res = "none"
				break
			}
			labels := map[string]string{}
			if c.SkipVerify {
				labels[config.TargetSkipVerifyLabel] = "true"
			} else {
				labels[estargz.TOCJSONDigestAnnotation] = w.built.tocDigest.String()
			}
			if c.LabelSize {
				labels[config.TargetPrefetchSizeLabel] = fmt.Sprintf("%d", c.PrefetchSize)
			}
			w.labels = labels
			switch o.Fault {
			case "fail":
				w.armFault = func() { w.reg.failFrom = o.FailFrom }
			case "stall":
				w.armFault = func() { w.reg.stall = true }
			}
			stargzfs.VerifNoFuseC15(mountpoint, true)
			if err := w.fsys.Mount(context.Background(), mountpoint, labels); err != nil {
				out.Res = "err"
				w.bad("Mount of a well-formed layer from a reachable registry failed: %v", err)
				break
			}
			w.l = stargzfs.VerifLayerC15(w.fsys, mountpoint)
			if w.l == nil {
				out.Res = "err"
				w.bad("Mount succeeded but no layer is registered under the mountpoint")
				break
			}
			if err := w.observe(obs); err != nil {
				out.Res = "err"
				w.bad("mounted layer cannot be observed: %v", err)
				break
			}
			w.mounted = true
			if !c.NoPrefetch {
				// what the compressed-blob cache held when the prefetch spawned by Mount started: the footer / TOC reads
				pre = true
				seen := map[int64]bool{}
				for _, r := range w.reg.logFrom(0)[:w.pfMark] {
					for b := r[0] / c.BlobCS * c.BlobCS; b < r[0]+r[1]; b += c.BlobCS {
						if !seen[b] {
							seen[b] = true
							obs.Pre = append(obs.Pre, b)
						}
					}
				}
			}
			out.Res = "ok"
			if !c.NoPrefetch {
				// Mount must have spawned the prefetch itself: wait for a sign of it (the waiter released, a request in the
				// log or parked at the gate) before joining, because the join below is a Prefetch call and would run the
				// body if nobody had
				started := false
				for t0, limit := time.Now(), patience(); time.Since(t0) < limit; time.Sleep(200 * time.Microsecond) {
					if layer.VerifWaiterClosedC15(w.l) || atomic.LoadInt32(&w.reg.hits) > 0 || w.reg.logLen() > w.pfMark {
						started = true
						break
					}
				}
				if !started {
					expired()
					w.bad("Mount did not start the prefetch of the layer (prefetch enabled: no request, no parked request, waiter not released)")
				}
				// join: a second call returns when the first one is over (sync.Once)
				ch := make(chan error, 1)
				w.pfRunning = append(w.pfRunning, ch)
				go func() { ch <- w.l.Prefetch(c.PrefetchSize) }()
				if w.awaitPrefetch() {
					out.Res = "stalled"
					break
				}
				w.collectPrefetch()
				w.reg.set(func() { w.reg.failFrom = -1; w.reg.stall = false })
				res := "ok"
				if o.Fault == "fail" {
					res = "unknown"
				}
				w.afterPrefetchBody(res, &out)
			}
			if !c.NoBG {
				// ... and the background fetch: it is over when every chunk of every file is in the chunk cache
				// (BackgroundFetch is not called here: that call would do the work if Mount had not started it)
				total := 0
				for _, fi := range w.files {
					total += len(fi.Chunks)
				}
				finished := false
				joined := false
				base, baseLog := len(w.fsKeys()), w.reg.logLen()
				for t0, limit := time.Now(), patience(); time.Since(t0) < limit; time.Sleep(2 * time.Millisecond) {
					n := len(w.fsKeys())
					if n == total {
						finished = true
						break
					}
					if n > base || w.reg.logLen() > baseLog {
						// the background fetch is evidently running: a call now joins it (sync.Once) instead of doing its
						// work, and when it is over the chunk cache either holds everything or never will
						jd := make(chan error, 1)
						go func() { jd <- w.l.BackgroundFetch() }()
						select {
						case <-jd:
							joined = true
						case <-time.After(patience()):
							expired()
							w.bad("the BackgroundFetch spawned by Mount did not return")
						}
						pctl.settle()
						finished = len(w.fsKeys()) == total
						break
					}
				}
				w.bgRan = true
				w.bgOK = o.Fault == "" && finished
				if !finished && !joined {
					expired()
				}
				if !finished && o.Fault == "" {
					w.bad("the background fetch Mount has to start did not bring every chunk into the chunk cache (%d of %d)", len(w.fsKeys()), total)
				}
				if finished {
					// let the goroutine return: a repeated call comes back when the running one is over
					done := make(chan error, 1)
					go func() { done <- w.l.BackgroundFetch() }()
					select {
					case <-done:
					case <-time.After(patience()):
						expired()
						w.bad("the BackgroundFetch spawned by Mount did not return")
					}
				}
				if !w.held {
					pctl.settle()
					out.Keys, out.HasKeys = w.fsKeys(), true
				}
				if w.bgOK {
					down := false
					w.reg.set(func() { down = w.reg.off; w.reg.off = true })
					errs, grew, _ := w.readFiles(func(fi *fileInfo) bool { return !fi.Landmark }, o.Buf)
					w.reg.set(func() { w.reg.off = down })
					if errs > 0 || grew {
						w.bad("after the BackgroundFetch spawned by Mount finished, %d file(s) could not be read with the registry unreachable (requests attempted: %v)", errs, grew)
					}
				}
			}
		case "check":
			// the real fs.Check
			mp := mountpoint
			if o.Bad {
				mp = "/verif-c15/other"
			}
			if w.mounted {
				info := w.l.Info()
				out.Full = info.FetchedSize >= info.Size
			}
			down := false
			w.reg.set(func() { down = w.reg.off })
			closedBefore := w.mounted && layer.VerifWaiterClosedC15(w.l)
			t0 := time.Now()
			done := make(chan error, 1)
			go func() { done <- w.fsys.Check(context.Background(), mp, w.labels) }()
			var err error
			select {
			case err = <-done:
			case <-time.After(w.timeout + patience()):
				expired()
				w.bad("Check did not return long after the prefetch timeout of %v", w.timeout)
				out.Res = "hang"
			}
			el := time.Since(t0)
			if out.Res != "hang" {
				out.Res = resOf(err)
			}
			// "waited" is decided by its effect, not by the clock (a loaded machine makes any call slow): in a script the
			// prefetch is either parked or over, so the only thing that can release an open waiter during the call is the
			// timeout of the call's own wait
			out.Waited = w.mounted && !o.Bad && !closedBefore && layer.VerifWaiterClosedC15(w.l)
			if out.Waited && el < w.timeout-5*time.Millisecond {
				w.bad("Check released the prefetch waiter after %v, before its timeout of %v", el, w.timeout)
			}
			if !o.Bad && w.mounted {
				running := len(w.pfRunning) > 0 && !w.pfBodyRan
				want, _ := w.effectiveRange()
				async := c.AsyncSize > 0 && want > c.AsyncSize
				switch {
				case err != nil && !down:
					w.bad("Check of a mounted layer failed although the registry is reachable: %v", err)
				case err == nil && out.Waited && (c.NoPrefetch || w.anyTimeout || (w.pfBodyRan && len(w.pfRunning) == 0) || (running && async)):
					w.bad("Check blocked for %v although there was no prefetch to wait for (noprefetch=%v, earlier timeout=%v, prefetch over=%v, async release due=%v)",
						el, c.NoPrefetch, w.anyTimeout, w.pfBodyRan && len(w.pfRunning) == 0, running && async)
				case err == nil && !out.Waited && running && !async && !w.anyTimeout && !c.NoPrefetch:
					w.bad("the first Check returned after %v without waiting for the prefetch that was still downloading", el)
				}
				if err == nil && out.Waited {
					w.anyTimeout = true
				}
			}
		case "hold":
			if c.dirCache() && !c.SyncAdd {
				pctl.setHold(true)
				w.held = true
			}
			out.Res = "ok"
		case "settle":
			pctl.setHold(false)
			w.held = false
			if !pctl.settle() {
				w.bad("cache persistence did not finish")
			}
			out.Res = "ok"
			out.Keys, out.HasKeys = w.fsKeys(), true
		case "refresh":
			// the real Layer.Refresh: the blob gets a new fetcher whose cache keys differ, so from here on the compressed
			// bytes fetched so far are not served locally: what the chunk cache lacks has to come from the registry
			if len(w.pfRunning) > 0 {
				out.Res = "none"
				break
			}
			noHosts := func(reference.Spec) ([]docker.RegistryHost, error) {
				return nil, fmt.Errorf("no registry host configured")
			}
			out.Res = resOf(w.l.Refresh(context.Background(), noHosts, w.refspec, w.desc))
		case "off":
			w.reg.set(func() { w.reg.off = true })
			out.Res = "ok"
		case "on":
			w.reg.set(func() { w.reg.off = false })
			out.Res = "ok"
		case "pf":
			if !pre {
				pre = true
				if !w.held {
					pctl.settle()
				}
				obs.Pre = w.httpChunks()
			}
			n := o.N
			if n < 1 {
				n = 1
			}
			first := len(w.pfRunning) == 0 && !w.pfBodyRan
			if first {
				w.pfMark = w.reg.logLen()
				w.reg.set(func() {
					w.reg.failFrom = -1
					w.reg.stall = false
					switch o.Fault {
					case "fail":
						w.reg.failFrom = o.FailFrom
					case "fail2":
						w.reg.failFrom = w.secondPhaseFrom()
					case "stall":
						w.reg.stall = true
					}
				})
				if o.Fault == "fail2" {
					out.FailFrom = w.secondPhaseFrom()
				}
			}
			mark := w.reg.logLen()
			for k := 0; k < n; k++ {
				ch := make(chan error, 1)
				w.pfRunning = append(w.pfRunning, ch)
				go func() { ch <- w.l.Prefetch(c.PrefetchSize) }()
			}
			stalled := w.awaitPrefetch()
			if stalled {
				out.Res = "stalled"
			} else {
				res, _ := w.collectPrefetch()
				out.Res = res
				if first {
					w.reg.set(func() { w.reg.failFrom = -1; w.reg.stall = false })
					w.afterPrefetchBody(res, &out)
				} else {
					out.Reqs = w.reg.logFrom(mark)
					if len(out.Reqs) > 0 {
						w.bad("a repeated Prefetch call caused %d registry request(s): the body ran again", len(out.Reqs))
					}
				}
			}
		case "rel":
			if len(w.pfRunning) == 0 {
				out.Res = "none"
				break
			}
			w.reg.set(func() { w.reg.stall = false })
			close(w.reg.gate)
			res, _ := w.collectPrefetch()
			w.reg.set(func() { w.reg.gate = make(chan struct{}); w.reg.failFrom = -1 })
			for len(w.reg.hitCh) > 0 {
				<-w.reg.hitCh
			}
			out.Res = res
			w.afterPrefetchBody(res, &out)
		case "wait":
			n := o.N
			if n < 1 {
				n = 1
			}
			results := make(chan error, n)
			t0 := time.Now()
			for k := 0; k < n; k++ {
				go func() { results <- w.l.WaitForPrefetchCompletion() }()
			}
			out.Res = "ok"
			for k := 0; k < n; k++ {
				select {
				case err := <-results:
					if err != nil {
						out.Res = "timeout"
						if !strings.Contains(err.Error(), "timeout") {
							out.Res = "err"
						}
					}
				case <-time.After(w.timeout + patience()):
					expired()
					w.bad("WaitForPrefetchCompletion did not return long after its timeout of %v", w.timeout)
					out.Res = "hang"
				}
			}
			el := time.Since(t0)
			if out.Res == "timeout" && el < w.timeout-5*time.Millisecond {
				w.bad("WaitForPrefetchCompletion reported a timeout after %v (timeout %v)", el, w.timeout)
			}
			if w.pfBodyRan && len(w.pfRunning) == 0 && out.Res != "ok" {
				w.bad("WaitForPrefetchCompletion returned %s although Prefetch had already returned", out.Res)
			}
			// "returns when prefetch ends or fails, or after the timeout" (or when the documented async threshold is exceeded
			// by the range that is really prefetched): a nil return while the download is parked, with no earlier timeout,
			// is a release nobody asked for; a timeout although the threshold is exceeded is a release that is missing.
			if len(w.pfRunning) > 0 && !w.pfBodyRan {
				want, _ := w.effectiveRange()
				async := c.AsyncSize > 0 && want > c.AsyncSize
				if out.Res == "ok" && !w.anyTimeout && !async {
					w.bad("WaitForPrefetchCompletion returned nil while the prefetch of [0,%d) was still downloading (no timeout so far; async threshold %d not exceeded by the prefetched range; configured size %d)", want, c.AsyncSize, c.PrefetchSize)
				}
				if out.Res == "timeout" && async {
					w.bad("WaitForPrefetchCompletion timed out although the prefetched range [0,%d) exceeds the async threshold %d", want, c.AsyncSize)
				}
			}
			if out.Res == "timeout" {
				w.anyTimeout = true
			}
		case "readpart":
			// one byte of the second chunk of every multi-chunk file: leaves those files partly cached
			if len(w.pfRunning) > 0 {
				out.Res = "none"
				break
			}
			mark := w.reg.logLen()
			for _, fi := range w.files {
				if fi.Landmark || len(fi.Chunks) < 2 {
					continue
				}
				off := fi.Chunks[1][0]
				ra, err := w.rd.OpenFile(fi.ID)
				if err != nil {
					out.Errs++
					continue
				}
				p := make([]byte, 1)
				if n, err := ra.ReadAt(p, off); (err != nil && err != io.EOF) || n != 1 {
					out.Errs++
				} else if p[0] != fi.content[off] {
					w.bad("file %s: byte %d read back wrong", fi.name, off)
				}
			}
			out.Res, out.Grew = "ok", w.reg.logLen() > mark
			if !w.held {
				pctl.settle()
				out.Keys, out.HasKeys = w.fsKeys(), true
			}
		case "readprio", "readall":
			if len(w.pfRunning) > 0 {
				out.Res = "none"
				break
			}
			sel := func(fi *fileInfo) bool { return !fi.Landmark }
			if o.Op == "readprio" {
				sel = func(fi *fileInfo) bool { return fi.Prio && !fi.Landmark }
			}
			errs, grew, n := w.readFiles(sel, o.Buf)
			out.Res, out.Errs, out.Grew = "ok", errs, grew
			if !w.held {
				pctl.settle()
				out.Keys, out.HasKeys = w.fsKeys(), true
			}
			_ = n
			down := false
			w.reg.set(func() { down = w.reg.off })
			// clause 1: after a completed prefetch of a layer with a prefetch landmark, prioritized files are local
			if o.Op == "readprio" && w.pfBodyOK && len(w.pfRunning) == 0 && obs.LMOff >= 0 && !obs.NoPrefetchLM {
				if grew || errs > 0 {
					what := fmt.Sprintf("after Prefetch completed, reading the prioritized files completely caused registry requests (grew=%v) or failed (%d files)", grew, errs)
					if w.held && !c.SyncAdd && (c.FSCache != "memory" || c.HTTPCache != "memory") {
						w.finding("C15-F25-async-persist-window", "%s", what+" while cache persistence was still pending (directory cache, sync_add=false)")
					} else {
						w.bad("%s", what)
					}
				}
			}
			if w.bgOK && !w.held {
				if grew || errs > 0 {
					w.bad("after BackgroundFetch succeeded, reading files caused registry requests (grew=%v) or failed (%d files; registry down=%v)", grew, errs, down)
				}
			}
		case "bg":
			if len(w.pfRunning) > 0 {
				out.Res = "none"
				break
			}
			n := o.N
			if n < 1 {
				n = 1
			}
			first := !w.bgRan
			w.reg.set(func() {
				w.reg.failFrom = -1
				if o.Fault == "fail" {
					w.reg.failFrom = o.FailFrom
				}
			})
			stop := make(chan struct{})
			var wg sync.WaitGroup
			if o.Intf {
				wg.Add(1)
				go func() {
					defer wg.Done()
					for k := 0; k < 6; k++ {
						select {
						case <-stop:
							return
						default:
						}
						w.tm.DoPrioritizedTask()
						time.Sleep(300 * time.Microsecond)
						w.tm.DonePrioritizedTask()
						time.Sleep(time.Duration(1+k%3) * time.Millisecond)
					}
				}()
			}
			mark := w.reg.logLen()
			results := make(chan error, n)
			for k := 0; k < n; k++ {
				go func() { results <- w.l.BackgroundFetch() }()
			}
			out.Res = "ok"
			for k := 0; k < n; k++ {
				select {
				case err := <-results:
					if err != nil {
						out.Res = "err"
					}
				case <-time.After(patience()):
					expired()
					w.bad("BackgroundFetch did not return")
					out.Res = "hang"
				}
			}
			close(stop)
			wg.Wait()
			w.reg.set(func() { w.reg.failFrom = -1 })
			if first {
				w.bgRan = true
				w.bgOK = out.Res == "ok"
			} else if w.reg.logLen() > mark {
				w.bad("a repeated BackgroundFetch call caused registry requests: the body ran again")
			}
			if !w.held {
				pctl.settle()
				out.Keys, out.HasKeys = w.fsKeys(), true
			}
			if first && w.bgOK && !w.held {
				// clause 4, checked right here with the registry switched off
				down := false
				w.reg.set(func() { down = w.reg.off; w.reg.off = true })
				errs, grew, _ := w.readFiles(func(fi *fileInfo) bool { return !fi.Landmark }, o.Buf)
				w.reg.set(func() { w.reg.off = down })
				if errs > 0 || grew {
					w.bad("after BackgroundFetch succeeded, %d file(s) could not be read with the registry unreachable (requests attempted: %v)", errs, grew)
				}
			}
		default:
			out.Res = "none"
		}
		obs.Outs = append(obs.Outs, out)
		dbg(t00, o.Op)
	}
	if !pre && w.blob != nil { // (a filesystem-level script without a mount op has no layer)
		obs.Pre = w.httpChunks()
	}
}
