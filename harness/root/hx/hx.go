// Package hx: shared helpers for the correspondence harnesses
// (deterministic PRNG, Coq term printing, case/stat output).
package hx

import (
	"bufio"
	"encoding/json"
	"flag"
	"fmt"
	"os"
	"path/filepath"
	"sort"
	"strings"
)

// Rng is splitmix64: every random choice of a harness derives from one seed.
type Rng struct{ s uint64 }

// NewRng mixes the seed first, so that consecutive seeds give unrelated streams
// (seeding with seed*increment would make seed n+1 the stream of seed n shifted by one draw).
func NewRng(seed uint64) *Rng {
	z := seed + 0x632BE59BD9B4E019
	z = (z ^ (z >> 30)) * 0xBF58476D1CE4E5B9
	z = (z ^ (z >> 27)) * 0x94D049BB133111EB
	z ^= z >> 31
	return &Rng{s: z}
}

func (r *Rng) U64() uint64 {
	r.s += 0x9E3779B97F4A7C15
	z := r.s
	z = (z ^ (z >> 30)) * 0xBF58476D1CE4E5B9
	z = (z ^ (z >> 27)) * 0x94D049BB133111EB
	return z ^ (z >> 31)
}

// Intn returns a value in [0,n).
func (r *Rng) Intn(n int) int {
	if n <= 0 {
		return 0
	}
	return int(r.U64() % uint64(n))
}

// Range returns a value in [lo,hi].
func (r *Rng) Range(lo, hi int) int { return lo + r.Intn(hi-lo+1) }

func (r *Rng) Bool() bool { return r.U64()&1 == 1 }

// Chance is true with probability num/den.
func (r *Rng) Chance(num, den int) bool { return r.Intn(den) < num }

// Pick returns a weighted index.
func (r *Rng) Pick(weights ...int) int {
	t := 0
	for _, w := range weights {
		t += w
	}
	x := r.Intn(t)
	for i, w := range weights {
		if x < w {
			return i
		}
		x -= w
	}
	return len(weights) - 1
}

func (r *Rng) Bytes(n int) []byte {
	b := make([]byte, n)
	for i := range b {
		b[i] = byte(r.U64())
	}
	return b
}

// Fork derives an independent generator (per case), so that one case replays from (seed, index).
func (r *Rng) Fork() *Rng { return &Rng{s: r.U64()} }

// ---- Coq term printing ----

func CoqNat(n int) string { return fmt.Sprintf("%d", n) }

func CoqZ(n int64) string {
	if n < 0 {
		return fmt.Sprintf("(%d)%%Z", n)
	}
	return fmt.Sprintf("%d%%Z", n)
}

func CoqN(n uint64) string { return fmt.Sprintf("%d%%N", n) }

func CoqBool(b bool) string {
	if b {
		return "true"
	}
	return "false"
}

func CoqList(items []string) string { return "[" + strings.Join(items, "; ") + "]" }

func CoqNatList(xs []int) string {
	s := make([]string, len(xs))
	for i, x := range xs {
		s[i] = CoqNat(x)
	}
	return CoqList(s)
}

func CoqZList(xs []int64) string {
	s := make([]string, len(xs))
	for i, x := range xs {
		s[i] = CoqZ(x)
	}
	return CoqList(s)
}

// CoqBytes prints a byte string as list N.
func CoqBytes(b []byte) string {
	s := make([]string, len(b))
	for i, x := range b {
		s[i] = fmt.Sprintf("%d", x)
	}
	return "[" + strings.Join(s, "; ") + "]%N"
}

func CoqOpt(s string, ok bool) string {
	if !ok {
		return "None"
	}
	return "(Some " + s + ")"
}

// ---- run context ----

// Ctx carries the common flags and output files of one harness run.
type Ctx struct {
	Seed    uint64
	N       int
	Out     string
	Replay  string
	Tier    string
	cases   *bufio.Writer
	casesF  *os.File
	jsonl   *bufio.Writer
	jsonlF  *os.File
	ncases  int
	Stats   map[string]int
	Fail    []Failure
	Known   []Failure
	Samples []any
	distinct map[string]bool
	Extra   map[string]any
}

// Failure is a model-free oracle failure observed on the implementation.
type Failure struct {
	Case   int    `json:"case"`
	What   string `json:"what"`
	Sig    string `json:"sig,omitempty"`
	Detail any    `json:"detail,omitempty"`
}

func Start() *Ctx {
	c := &Ctx{Stats: map[string]int{}, distinct: map[string]bool{}, Extra: map[string]any{}}
	flag.Uint64Var(&c.Seed, "seed", 1, "PRNG seed")
	flag.IntVar(&c.N, "n", 100, "number of cases")
	flag.StringVar(&c.Out, "out", "", "output directory")
	flag.StringVar(&c.Replay, "replay", "", "replay file (json case)")
	flag.StringVar(&c.Tier, "tier", "quick", "quick|thorough")
	flag.Parse()
	if c.Out == "" {
		fmt.Fprintln(os.Stderr, "need -out")
		os.Exit(2)
	}
	if err := os.MkdirAll(c.Out, 0o755); err != nil {
		panic(err)
	}
	var err error
	c.casesF, err = os.Create(filepath.Join(c.Out, "cases.coq"))
	if err != nil {
		panic(err)
	}
	c.cases = bufio.NewWriter(c.casesF)
	c.jsonlF, err = os.Create(filepath.Join(c.Out, "cases.jsonl"))
	if err != nil {
		panic(err)
	}
	c.jsonl = bufio.NewWriter(c.jsonlF)
	return c
}

// Case records one case: its Coq term (one line), its JSON form (for replay and samples),
// and a key deciding distinctness + whether it is non-trivial.
func (c *Ctx) Case(coqTerm string, js any, key string, nontrivial bool) int {
	id := c.ncases
	c.ncases++
	coqTerm = strings.ReplaceAll(coqTerm, "\n", " ")
	fmt.Fprintln(c.cases, coqTerm)
	b, err := json.Marshal(js)
	if err != nil {
		panic(err)
	}
	c.jsonl.Write(b)
	c.jsonl.WriteByte('\n')
	if nontrivial {
		c.distinct[key] = true
	}
	if len(c.Samples) < 3 {
		c.Samples = append(c.Samples, js)
	}
	return id
}

func (c *Ctx) Count(k string) { c.Stats[k]++ }
func (c *Ctx) CountN(k string, n int) { c.Stats[k] += n }

func (c *Ctx) Violation(caseID int, what string, detail any) {
	c.Fail = append(c.Fail, Failure{Case: caseID, What: what, Detail: detail})
}

// Finding records an oracle failure that carries a signature to be matched against KNOWN_FINDINGS.json.
func (c *Ctx) Finding(caseID int, sig, what string, detail any) {
	c.Fail = append(c.Fail, Failure{Case: caseID, What: what, Sig: sig, Detail: detail})
}

func (c *Ctx) Finish() {
	c.cases.Flush()
	c.casesF.Close()
	c.jsonl.Flush()
	c.jsonlF.Close()
	keys := make([]string, 0, len(c.Stats))
	for k := range c.Stats {
		keys = append(keys, k)
	}
	sort.Strings(keys)
	st := map[string]any{
		"cases":               c.ncases,
		"distinct_nontrivial": len(c.distinct),
		"distribution":        c.Stats,
		"oracle_failures":     c.Fail,
		"samples":             c.Samples,
		"seed":                c.Seed,
		"extra":               c.Extra,
	}
	b, _ := json.MarshalIndent(st, "", " ")
	if err := os.WriteFile(filepath.Join(c.Out, "stats.json"), b, 0o644); err != nil {
		panic(err)
	}
}

// LoadReplay reads the JSON case of a replay file into v.
func (c *Ctx) LoadReplay(v any) {
	b, err := os.ReadFile(c.Replay)
	if err != nil {
		panic(err)
	}
	var wrap struct {
		Case json.RawMessage `json:"case"`
	}
	if err := json.Unmarshal(b, &wrap); err != nil {
		panic(err)
	}
	if err := json.Unmarshal(wrap.Case, v); err != nil {
		panic(err)
	}
}
