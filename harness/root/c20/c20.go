// C20 correspondence harness: drives the real pull-side label handlers
// (source.AppendDefaultLabelsHandlerWrapper; source.AppendExtraLabelsHandler on top of containerd's
// snapshotters.AppendInfoHandlerWrapper) over generated manifests, hands the produced annotation maps
// (and mutated copies of them) to the real readers (source.FromDefaultLabels, service: CRI reader then default
// reader, fs.neighboringLayers, the prefetch-size parse of fs.Mount) and prints every case with the observed
// outputs as a Coq term for Model/Labels.v. The model-free oracle evaluates the clauses of C20 directly on the
// observations with containerd's own labels.Validate / reference.Parse / go-digest Parse.
//
// JSON case: the children of the manifest are stored under "ops" so that the driver can shrink them.
// Package c20 is the shared machinery of the C20 harnesses (cmd/labels in this module, cmd/rpull in harness/cmdmod):
// case types, execution of the label handlers, reader probes, model-free oracle, Coq printer, generators.
package c20

import (
	"context"
	"crypto/sha256"
	"encoding/hex"
	"fmt"
	"reflect"
	"sort"
	"strconv"
	"strings"

	"github.com/containerd/containerd/v2/core/images"
	"github.com/containerd/containerd/v2/core/remotes/docker"
	ctdlabels "github.com/containerd/containerd/v2/pkg/labels"
	"github.com/containerd/containerd/v2/pkg/reference"
	ctdsnapshotters "github.com/containerd/containerd/v2/pkg/snapshotters"
	stargzfs "github.com/containerd/stargz-snapshotter/fs"
	"github.com/containerd/stargz-snapshotter/fs/source"
	"github.com/containerd/stargz-snapshotter/service"
	digest "github.com/opencontainers/go-digest"
	ocispec "github.com/opencontainers/image-spec/specs-go/v1"
	"verif/harness/hx"
)

// label keys as the protocol documents them (literal on purpose: independent of the constants in /repo)
const (
	kRef         = "containerd.io/snapshot/remote/stargz.reference"
	kDigest      = "containerd.io/snapshot/remote/stargz.digest"
	kLayers      = "containerd.io/snapshot/remote/stargz.layers"
	kURLs        = "containerd.io/snapshot/remote/urls"
	kURLsPrefix  = "containerd.io/snapshot/remote/urls."
	kPrefetch    = "containerd.io/snapshot/remote/stargz.prefetch"
	kCriRef      = "containerd.io/snapshot/cri.image-ref"
	kCriDigest   = "containerd.io/snapshot/cri.layer-digest"
	kCriLayers   = "containerd.io/snapshot/cri.image-layers"
	kCriManifest = "containerd.io/snapshot/cri.manifest-digest"
)

const (
	sigEmptyURLs = "C20-urls-empty-list-reads-back-as-one-empty-url"
	sigCommaURL  = "C20-urls-comma-inside-url-splits"
	sigShift     = "C20-default-nonlayer-child-shifts-urls-index"
	sigCriWins   = "C20-default-flavour-manifest-supplied-cri-annotations-win"
	sigKept      = "C20-extra-flavour-keeps-manifest-supplied-urls-prefetch-annotations"

	sigDefaultFallback = "C20-extra-flavour-unusable-cri-labels-fall-back-to-manifest-supplied-default-annotations"
)

type Child struct {
	MT     string            `json:"mt"`
	Digest string            `json:"d"`
	URLs   []string          `json:"u"`
	Ann    map[string]string `json:"ann,omitempty"` // annotations the manifest itself carries on this descriptor
}

type Mut struct {
	Op  string `json:"op"` // del | set
	Key string `json:"key"`
	Val string `json:"val,omitempty"`
}

type Probe struct {
	Layer int   `json:"layer"`
	Muts  []Mut `json:"muts,omitempty"`
	Dflt  int64 `json:"dflt"`
}

type Case struct {
	Flavour  string  `json:"flavour"` // default | extra
	MT       string  `json:"mt"`      // media type of the handled descriptor
	Ref      string  `json:"ref"`
	Prefetch int64   `json:"prefetch"`
	MDigest  string  `json:"mdigest"`
	Children []Child `json:"ops"`
	Record   []int   `json:"record,omitempty"` // children whose annotations are printed for the model (nil = all)
	Probes   []Probe `json:"probes"`
}

// ---------------------------------------------------------------------------------------------
// observations

type neigh struct {
	D string
	U []string
}

type readRes struct {
	OK    bool
	Name  reference.Spec
	Dg    string
	URLs  []string
	Neigh []neigh
}

type probeObs struct {
	p     Probe
	m     map[string]string
	rdef  readRes
	rsvc  readRes
	mount []neigh
	pf    int64
}

type obs struct {
	handlerErr bool
	panicked   string
	anns       []map[string]string // per child (nil map = no annotations)
	probes     []probeObs
}

func hostsStub(reference.Spec) ([]docker.RegistryHost, error) { return nil, nil }

func specStr(s reference.Spec) string { return s.Locator + "|" + s.Object }

func runReader(gs source.GetSources, m map[string]string) (res readRes, problems []string) {
	cp := make(map[string]string, len(m))
	for k, v := range m {
		cp[k] = v
	}
	srcs, err := gs(cp)
	if err != nil {
		return readRes{}, nil
	}
	if len(srcs) != 1 {
		return readRes{}, []string{fmt.Sprintf("reader returned %d sources without an error", len(srcs))}
	}
	s := srcs[0]
	res = readRes{OK: true, Name: s.Name, Dg: s.Target.Digest.String(), URLs: s.Target.URLs}
	ls := s.Manifest.Layers
	if len(ls) == 0 || ls[0].Digest != s.Target.Digest || !reflect.DeepEqual(ls[0].URLs, s.Target.URLs) {
		problems = append(problems, "Manifest.Layers does not start with the target descriptor")
	} else {
		for _, d := range ls[1:] {
			res.Neigh = append(res.Neigh, neigh{D: d.Digest.String(), U: d.URLs})
		}
	}
	return res, problems
}

func mountNeigh(gs source.GetSources, m map[string]string) []neigh {
	cp := make(map[string]string, len(m))
	for k, v := range m {
		cp[k] = v
	}
	srcs, err := gs(cp)
	if err != nil || len(srcs) == 0 {
		return nil
	}
	var out []neigh
	for _, d := range stargzfs.VerifNeighboringLayers(srcs[0].Manifest, srcs[0].Target) {
		out = append(out, neigh{D: d.Digest.String(), U: d.URLs})
	}
	return out
}

// prefetch size as fs.Mount computes it (fs/fs.go: strconv.ParseInt(psStr, 10, 64), fallback to the configured size)
func mountPrefetch(m map[string]string, dflt int64) int64 {
	if s, ok := m[kPrefetch]; ok {
		if ps, err := strconv.ParseInt(s, 10, 64); err == nil {
			return ps
		}
	}
	return dflt
}

func recorded(c Case, i int) bool {
	if c.Record == nil {
		return true
	}
	for _, x := range c.Record {
		if x == i {
			return true
		}
	}
	return false
}

// Obs is what was observed on the implementation for one case.
type Obs = obs

// ExecHandlers runs the label handler of the case's flavour directly over the case's children and probes the readers.
func ExecHandlers(c Case) (Case, Obs, []string) {
	o, problems := execCase(c)
	return c, o, problems
}

// ObsFromAnns builds the observation from annotation maps obtained elsewhere (one per child, nil = none) and
// probes the readers on them. failed = the pull-side failed before any label was produced.
func ObsFromAnns(c Case, anns []map[string]string, failed bool) (Obs, []string) {
	var o obs
	if failed {
		o.handlerErr = true
		return o, nil
	}
	o.anns = anns
	problems := probeReaders(c, &o)
	return o, problems
}

func execCase(c Case) (o obs, problems []string) {
	children := make([]ocispec.Descriptor, len(c.Children))
	for i, ch := range c.Children {
		children[i] = ocispec.Descriptor{MediaType: ch.MT, Digest: digest.Digest(ch.Digest), Size: int64(100 + i)}
		if ch.URLs != nil {
			children[i].URLs = append([]string{}, ch.URLs...)
		}
		if ch.Ann != nil {
			children[i].Annotations = map[string]string{}
			for k, v := range ch.Ann {
				children[i].Annotations[k] = v
			}
		}
	}
	inner := images.HandlerFunc(func(ctx context.Context, desc ocispec.Descriptor) ([]ocispec.Descriptor, error) {
		out := make([]ocispec.Descriptor, len(children))
		copy(out, children)
		return out, nil
	})
	var h images.Handler
	if c.Flavour == "extra" {
		h = source.AppendExtraLabelsHandler(c.Prefetch, ctdsnapshotters.AppendInfoHandlerWrapper(c.Ref))(inner)
	} else {
		h = source.AppendDefaultLabelsHandlerWrapper(c.Ref, c.Prefetch)(inner)
	}
	var got []ocispec.Descriptor
	var herr error
	func() {
		defer func() {
			if r := recover(); r != nil {
				o.panicked = fmt.Sprint(r)
			}
		}()
		got, herr = h.Handle(context.Background(), ocispec.Descriptor{MediaType: c.MT, Digest: digest.Digest(c.MDigest), Size: 1234})
	}()
	if o.panicked != "" {
		o.handlerErr = true
		return o, []string{"label handler panicked: " + o.panicked}
	}
	if herr != nil {
		o.handlerErr = true
		return o, nil
	}
	if len(got) != len(children) {
		return o, []string{"handler changed the number of children"}
	}
	for i := range got {
		if got[i].Digest != children[i].Digest || got[i].MediaType != children[i].MediaType || !reflect.DeepEqual(got[i].URLs, children[i].URLs) {
			problems = append(problems, fmt.Sprintf("handler altered child %d beyond its annotations", i))
		}
		o.anns = append(o.anns, got[i].Annotations)
	}
	problems = append(problems, probeReaders(c, &o)...)
	return o, problems
}

func probeReaders(c Case, o *obs) (problems []string) {
	rdef := source.FromDefaultLabels(hostsStub)
	rsvc := service.VerifSources(hostsStub)
	for _, p := range c.Probes {
		if p.Layer < 0 || p.Layer >= len(o.anns) || !recorded(c, p.Layer) {
			continue
		}
		m := map[string]string{}
		for k, v := range o.anns[p.Layer] {
			m[k] = v
		}
		for _, mu := range p.Muts {
			if mu.Op == "del" {
				delete(m, mu.Key)
			} else {
				m[mu.Key] = mu.Val
			}
		}
		po := probeObs{p: p, m: m}
		var pr []string
		po.rdef, pr = runReader(rdef, m)
		problems = append(problems, pr...)
		po.rsvc, pr = runReader(rsvc, m)
		problems = append(problems, pr...)
		po.mount = mountNeigh(rsvc, m)
		po.pf = mountPrefetch(m, p.Dflt)
		o.probes = append(o.probes, po)
	}
	return problems
}

// ---------------------------------------------------------------------------------------------
// model-free oracle

type failure struct {
	sig    string // "" = violation
	what   string
	detail any
}

func isManifest(mt string) bool {
	return mt == ocispec.MediaTypeImageManifest || mt == images.MediaTypeDockerSchema2Manifest
}

func strsEq(a, b []string) bool {
	if len(a) != len(b) {
		return false
	}
	for i := range a {
		if a[i] != b[i] {
			return false
		}
	}
	return true
}

// keptPrefix: the longest prefix of values the documented size-limited append keeps under key
func keptPrefix(key string, values []string) []string {
	acc := ""
	var kept []string
	for _, u := range values {
		if ctdlabels.Validate(key, acc+u+",") != nil {
			break
		}
		acc += u + ","
		kept = append(kept, u)
	}
	return kept
}

// wire: what a URL list looks like after the protocol's join/split
func wire(key string, values []string) []string {
	return strings.Split(strings.Join(keptPrefix(key, values), ","), ",")
}

const (
	uSame = iota
	uTruncated
	uEmptyFinding
	uCommaFinding
	uMismatch
)

// classifyURLs compares the URLs read back (got) with the URLs of the manifest descriptor (own).
func classifyURLs(key string, own, got []string) int {
	if strsEq(own, got) {
		return uSame
	}
	kept := keptPrefix(key, own)
	if len(kept) < len(own) && len(kept) > 0 && strsEq(kept, got) {
		return uTruncated
	}
	if len(kept) == 0 && strsEq(got, []string{""}) {
		return uEmptyFinding
	}
	hasComma := false
	for _, u := range kept {
		if strings.Contains(u, ",") {
			hasComma = true
		}
	}
	if hasComma && strsEq(got, strings.Split(strings.Join(kept, ","), ",")) {
		return uCommaFinding
	}
	return uMismatch
}

func parseRefOK(s string) (reference.Spec, bool) {
	sp, err := reference.Parse(s)
	return sp, err == nil
}

func digestOK(s string) bool {
	_, err := digest.Parse(s)
	return err == nil
}

// flavourOK: are the mandatory labels of one reader present and well-formed in m
func flavourOK(m map[string]string, refK, dgK, layersK string) bool {
	r, ok := m[refK]
	if !ok {
		return false
	}
	if _, ok := parseRefOK(r); !ok {
		return false
	}
	d, ok := m[dgK]
	if !ok || !digestOK(d) {
		return false
	}
	if l, ok := m[layersK]; ok {
		for _, e := range strings.Split(l, ",") {
			if !digestOK(e) {
				return false
			}
		}
	}
	return true
}

func checkAccepted(res readRes, m map[string]string, refK, dgK string, who string) []failure {
	var fs []failure
	sp, _ := parseRefOK(m[refK])
	if !reflect.DeepEqual(res.Name, sp) {
		fs = append(fs, failure{what: who + ": resolved to a reference other than the one in the label", detail: map[string]string{"label": m[refK], "got": res.Name.String()}})
	}
	if res.Dg != m[dgK] {
		fs = append(fs, failure{what: who + ": resolved to a digest other than the one in the label", detail: map[string]string{"label": m[dgK], "got": res.Dg}})
	}
	return fs
}

func oracle(c Case, o obs) []failure {
	var fs []failure
	if o.handlerErr {
		// the handlers may only fail when the manifest carries a digest that does not parse (extra flavour)
		allOK := true
		for _, ch := range c.Children {
			if !digestOK(ch.Digest) {
				allOK = false
			}
		}
		if allOK {
			fs = append(fs, failure{what: "label handler failed on a manifest with well-formed digests"})
		}
		return fs
	}
	man := isManifest(c.MT)
	layerIdx := []int{}
	for i, ch := range c.Children {
		if images.IsLayerType(ch.MT) {
			layerIdx = append(layerIdx, i)
		}
	}
	// clause 1: every label written is accepted by containerd's validation
	for i, a := range o.anns {
		pre := c.Children[i].Ann
		if (!man || !images.IsLayerType(c.Children[i].MT)) && !(len(a) == 0 && len(pre) == 0) && !reflect.DeepEqual(a, pre) {
			fs = append(fs, failure{what: fmt.Sprintf("labels attached to child %d which is not a layer of an image manifest", i)})
		}
		for k, v := range a {
			if pv, ok := pre[k]; ok && pv == v {
				continue // carried by the manifest, not written by the handlers
			}
			if err := ctdlabels.Validate(k, v); err != nil {
				fs = append(fs, failure{what: "a written label is rejected by containerd's label validation", detail: map[string]any{"child": i, "key": k, "len": len(k) + len(v)}})
			}
		}
	}
	_, refGood := parseRefOK(c.Ref)
	for _, po := range o.probes {
		m := po.m
		defOK := flavourOK(m, kRef, kDigest, kLayers)
		criOK := flavourOK(m, kCriRef, kCriDigest, kCriLayers)
		// clause: missing / malformed mandatory labels are rejected, accepted ones resolve to the labelled source
		if po.rdef.OK != defOK {
			fs = append(fs, failure{what: fmt.Sprintf("FromDefaultLabels accepted=%v but mandatory labels well-formed=%v", po.rdef.OK, defOK), detail: m})
		} else if po.rdef.OK {
			fs = append(fs, checkAccepted(po.rdef, m, kRef, kDigest, "FromDefaultLabels")...)
		}
		if po.rsvc.OK != (defOK || criOK) {
			fs = append(fs, failure{what: fmt.Sprintf("service reader accepted=%v but mandatory labels well-formed: cri=%v default=%v", po.rsvc.OK, criOK, defOK), detail: m})
		} else if po.rsvc.OK {
			if criOK {
				fs = append(fs, checkAccepted(po.rsvc, m, kCriRef, kCriDigest, "service reader")...)
			} else {
				fs = append(fs, checkAccepted(po.rsvc, m, kRef, kDigest, "service reader")...)
			}
		}
		// what Mount pre-resolves is exactly the reconstructed neighbour list, never the target itself
		if po.rsvc.OK {
			if len(po.mount) != len(po.rsvc.Neigh) {
				fs = append(fs, failure{what: "Mount's neighbouring layers differ from the reconstructed list"})
			}
			for i, n := range po.mount {
				if n.D == po.rsvc.Dg {
					fs = append(fs, failure{what: "Mount would pre-resolve the target itself as a neighbour"})
				}
				if i < len(po.rsvc.Neigh) && (n.D != po.rsvc.Neigh[i].D || !strsEq(n.U, po.rsvc.Neigh[i].U)) {
					fs = append(fs, failure{what: "Mount's neighbouring layers differ from the reconstructed list"})
				}
			}
		}
		if len(po.p.Muts) != 0 {
			continue
		}
		// ---- round trip of an unmodified annotation map of layer child po.p.Layer ----
		idx := po.p.Layer
		me := c.Children[idx]
		if !man || !images.IsLayerType(me.MT) {
			continue
		}
		res := po.rsvc
		who := "service reader"
		if c.Flavour != "extra" {
			// the default labels are read by FromDefaultLabels, directly or as the fallback of the service chain
			res, who = po.rdef, "FromDefaultLabels"
			if po.rdef.OK != po.rsvc.OK || (po.rdef.OK && !reflect.DeepEqual(po.rdef, po.rsvc)) {
				// known class: the manifest itself carries well-formed cri.image-ref / cri.layer-digest annotations on this
				// descriptor; the default handler leaves them in place and the service chain asks the CRI reader first
				_, injRef := me.Ann[kCriRef]
				_, injDg := me.Ann[kCriDigest]
				if injRef && injDg && criOK && m[kCriRef] == me.Ann[kCriRef] && m[kCriDigest] == me.Ann[kCriDigest] {
					fs = append(fs, failure{sig: sigCriWins, what: "manifest-supplied cri.* annotations make the service reader resolve to their reference/digest instead of the pulled ones", detail: map[string]any{"child": idx}})
				} else {
					fs = append(fs, failure{what: "service reader and FromDefaultLabels disagree on default labels"})
				}
			}
		}
		// known class (extra flavour): "nop if this key is already set" also keeps what the manifest itself supplied
		kept := func(key string) bool {
			v, ok := me.Ann[key]
			return c.Flavour == "extra" && ok && m[key] == v
		}
		wellFormed := refGood && digestOK(me.Digest)
		for _, j := range layerIdx {
			if j >= idx && !digestOK(c.Children[j].Digest) {
				wellFormed = false // a malformed digest further down may or may not reach the layers label
			}
		}
		if !res.OK {
			if wellFormed {
				fs = append(fs, failure{what: who + ": labels written for a well-formed manifest are rejected at mount time", detail: map[string]any{"child": idx}})
			}
			continue
		}
		if c.Flavour == "extra" && !wellFormed && !criOK && defOK && me.Ann[kRef] != "" && m[kRef] == me.Ann[kRef] && m[kDigest] == me.Ann[kDigest] {
			// known class: the pulled reference / digest do not parse, so the CRI labels are unusable (the expected answer is
			// a rejection), but the manifest supplied stargz.reference + stargz.digest annotations, the extra handler left
			// them in place, and the service chain falls back to them
			fs = append(fs, failure{sig: sigDefaultFallback, what: "CRI labels unusable, service reader falls back to manifest-supplied stargz.reference/digest annotations", detail: map[string]any{"child": idx}})
			continue
		}
		sp, _ := parseRefOK(c.Ref)
		if !refGood || !reflect.DeepEqual(res.Name, sp) {
			fs = append(fs, failure{what: who + ": reconstructed image reference differs from the pulled one", detail: map[string]any{"child": idx, "got": res.Name.String()}})
		}
		if res.Dg != me.Digest {
			fs = append(fs, failure{what: who + ": reconstructed layer digest differs", detail: map[string]any{"child": idx, "got": res.Dg, "want": me.Digest}})
		}
		if po.pf != c.Prefetch && kept(kPrefetch) {
			fs = append(fs, failure{sig: sigKept, what: "manifest-supplied prefetch annotation is kept instead of the pull-time prefetch size", detail: map[string]any{"child": idx}})
		} else if po.pf != c.Prefetch {
			fs = append(fs, failure{what: "prefetch-size label does not round-trip", detail: map[string]any{"child": idx, "got": po.pf, "want": c.Prefetch}})
		}
		switch classifyURLs(kURLs, me.URLs, res.URLs) {
		case uEmptyFinding:
			fs = append(fs, failure{sig: sigEmptyURLs, what: "target layer without URLs is reconstructed with URLs [\"\"]", detail: map[string]any{"child": idx}})
		case uCommaFinding:
			fs = append(fs, failure{sig: sigCommaURL, what: "a URL containing a comma comes back as several URLs", detail: map[string]any{"child": idx}})
		case uMismatch:
			if kept(kURLs) {
				fs = append(fs, failure{sig: sigKept, what: "manifest-supplied urls annotation is kept instead of the descriptor's URLs", detail: map[string]any{"child": idx}})
				break
			}
			fs = append(fs, failure{what: who + ": URLs of the target layer are not reproduced", detail: map[string]any{"child": idx, "got": res.URLs, "want": me.URLs}})
		}
		// neighbours: a manifest-order prefix of the layers from this one on, the target's own digest skipped
		type fl struct{ rel, abs int } // relative index in children[idx:], absolute index
		var following []fl
		for _, j := range layerIdx {
			if j >= idx {
				following = append(following, fl{j - idx, j})
			}
		}
		gotD := make([]string, len(res.Neigh))
		for i, n := range res.Neigh {
			gotD[i] = n.D
		}
		bestK := -1
		for k := len(following); k >= 0; k-- {
			var exp []string
			for _, f := range following[:k] {
				if d := c.Children[f.abs].Digest; d != me.Digest {
					exp = append(exp, d)
				}
			}
			if strsEq(exp, gotD) {
				bestK = k
				break
			}
		}
		if bestK < 0 {
			fs = append(fs, failure{what: who + ": neighbouring layers are not a manifest-order prefix of the following layers", detail: map[string]any{"child": idx, "got": gotD}})
			continue
		}
		if bestK < len(following) {
			// dropping layers is only allowed when the next digest would push the label over the size limit
			var ds []string
			for _, f := range following[:bestK+1] {
				ds = append(ds, c.Children[f.abs].Digest)
			}
			lk, v := kLayers, strings.Join(ds, ",")+","
			if c.Flavour == "extra" {
				lk, v = kCriLayers, strings.Join(ds, ",")
			}
			if ctdlabels.Validate(lk, v) == nil {
				fs = append(fs, failure{what: who + ": following layers are missing from the neighbour list although the label had room", detail: map[string]any{"child": idx, "kept": bestK, "of": len(following)}})
			}
		}
		// pairing: every neighbour carries its own URLs
		p := 0
		for q, f := range following[:bestK] {
			own := c.Children[f.abs]
			if own.Digest == me.Digest {
				continue
			}
			got := res.Neigh[p].U
			p++
			cls := uMismatch
			if c.Flavour == "extra" {
				// descriptors with equal digests denote the same blob: the URLs of any of them are its own
				for _, j := range layerIdx {
					if c.Children[j].Digest == own.Digest {
						if x := classifyURLs(kURLsPrefix+strconv.Itoa(q), c.Children[j].URLs, got); x < cls {
							cls = x
						}
					}
				}
			} else {
				cls = classifyURLs(kURLsPrefix+strconv.Itoa(f.rel), own.URLs, got)
			}
			switch cls {
			case uEmptyFinding:
				fs = append(fs, failure{sig: sigEmptyURLs, what: "neighbouring layer without URLs is reconstructed with URLs [\"\"]", detail: map[string]any{"child": idx, "neighbour": f.abs}})
			case uCommaFinding:
				fs = append(fs, failure{sig: sigCommaURL, what: "a URL containing a comma comes back as several URLs", detail: map[string]any{"child": idx, "neighbour": f.abs}})
			case uMismatch:
				if kept(kURLsPrefix + strconv.Itoa(q)) {
					fs = append(fs, failure{sig: sigKept, what: "manifest-supplied urls.<i> annotation is kept instead of the neighbour's URLs", detail: map[string]any{"child": idx, "neighbour": f.abs}})
					continue
				}
				// known class: default flavour, a non-layer child between the target and this neighbour: the writer numbers the
				// urls.<i> labels by position in children[i:], the reader by position in the layers label
				if c.Flavour != "extra" && q < f.rel {
					other := c.Children[idx+q]
					var exp []string
					if images.IsLayerType(other.MT) {
						exp = wire(kURLsPrefix+strconv.Itoa(q), other.URLs)
					}
					if strsEq(exp, got) {
						fs = append(fs, failure{sig: sigShift, what: "non-layer child inside the manifest's layer list: neighbour paired with the urls label of another position", detail: map[string]any{"child": idx, "neighbour": f.abs, "got": got, "own": own.URLs}})
						continue
					}
				}
				fs = append(fs, failure{what: who + ": neighbouring layer is not paired with its own URLs", detail: map[string]any{"child": idx, "neighbour": f.abs, "got": got, "own": own.URLs}})
			}
		}
	}
	return fs
}

// ---------------------------------------------------------------------------------------------
// Coq printing

func coqLit(s string) string {
	var b strings.Builder
	b.WriteByte('"')
	for i := 0; i < len(s); i++ {
		ch := s[i]
		switch {
		case ch == '"':
			b.WriteString("\"\"")
		case ch < 0x20 || ch > 0x7e:
			b.WriteByte('?') // never generated; keeps the term well-formed (shows up as a mismatch)
		default:
			b.WriteByte(ch)
		}
	}
	b.WriteByte('"')
	return b.String()
}

// coqStr prints a Go string as a Coq string expression; runs of >= 24 equal bytes are printed run-length encoded
// (srep n "x", see Model/Labels.v) because the elaboration of long literals dominates the cost of a check run.
func coqStr(s string) string {
	const minRun = 24
	var parts []string
	start := 0
	for i := 0; i < len(s); {
		j := i
		for j < len(s) && s[j] == s[i] {
			j++
		}
		if j-i >= minRun && s[i] != '"' && s[i] >= 0x20 && s[i] <= 0x7e {
			if i > start {
				parts = append(parts, coqLit(s[start:i]))
			}
			parts = append(parts, fmt.Sprintf("(srep %d %s)", j-i, coqLit(s[i:i+1])))
			start = j
		}
		i = j
	}
	if start < len(s) || len(parts) == 0 {
		parts = append(parts, coqLit(s[start:]))
	}
	out := parts[len(parts)-1]
	for k := len(parts) - 2; k >= 0; k-- {
		out = "(sapp " + parts[k] + " " + out + ")"
	}
	return out
}

func coqStrs(xs []string) string {
	s := make([]string, len(xs))
	for i, x := range xs {
		s[i] = coqStr(x)
	}
	return hx.CoqList(s)
}

// dict maps the digests and (comma-free) URLs of the case's children to piece references, so that the observed
// strings are printed compressed: a value is the comma-join of pieces (see V in Model/Labels.v).
type dict map[string]string

func newDict(c Case) dict {
	d := dict{}
	for i, ch := range c.Children {
		if len(ch.Digest) >= 8 && !strings.Contains(ch.Digest, ",") {
			if _, ok := d[ch.Digest]; !ok {
				d[ch.Digest] = fmt.Sprintf("PD %d", i)
			}
		}
		for j, u := range ch.URLs {
			if len(u) >= 12 && !strings.Contains(u, ",") {
				if _, ok := d[u]; !ok {
					d[u] = fmt.Sprintf("PU %d %d", i, j)
				}
			}
		}
	}
	return d
}

// val prints a string as a piece list
func (d dict) val(v string) string {
	var out []string
	lit := []string{}
	flush := func() {
		if len(lit) > 0 {
			out = append(out, "PS "+coqStr(strings.Join(lit, ",")))
			lit = lit[:0]
		}
	}
	for _, e := range strings.Split(v, ",") {
		if ref, ok := d[e]; ok {
			flush()
			out = append(out, ref)
		} else {
			lit = append(lit, e) // literal elements are merged: a literal piece may contain commas
		}
	}
	flush()
	return hx.CoqList(out)
}

func (d dict) vals(xs []string) string {
	s := make([]string, len(xs))
	for i, x := range xs {
		s[i] = d.val(x)
	}
	return hx.CoqList(s)
}

func coqKey(k string) string {
	switch k {
	case kRef:
		return "KRef"
	case kDigest:
		return "KDigest"
	case kLayers:
		return "KLayers"
	case kURLs:
		return "KUrls"
	case kPrefetch:
		return "KPrefetch"
	case kCriRef:
		return "KCriRef"
	case kCriDigest:
		return "KCriDigest"
	case kCriLayers:
		return "KCriLayers"
	case kCriManifest:
		return "KCriManifest"
	}
	if strings.HasPrefix(k, kURLsPrefix) {
		t := k[len(kURLsPrefix):]
		if n, err := strconv.Atoi(t); err == nil && n >= 0 && n < 100000 && strconv.Itoa(n) == t {
			return fmt.Sprintf("(KUrlsIdx %d)", n)
		}
	}
	return "(KO " + coqStr(k) + ")"
}

func (d dict) labels(m map[string]string) string {
	keys := make([]string, 0, len(m))
	for k := range m {
		keys = append(keys, k)
	}
	sort.Strings(keys)
	s := make([]string, len(keys))
	for i, k := range keys {
		s[i] = "L cs " + coqKey(k) + " " + d.val(m[k])
	}
	return hx.CoqList(s)
}

func (d dict) neighs(ns []neigh) string {
	s := make([]string, len(ns))
	for i, n := range ns {
		s[i] = "Nb cs " + d.val(n.D) + " " + d.vals(n.U)
	}
	return hx.CoqList(s)
}

func (d dict) rd(r readRes) string {
	if !r.OK {
		return "RErr"
	}
	return "(RO cs " + coqStr(specStr(r.Name)) + " " + d.val(r.Dg) + " " + d.vals(r.URLs) + " " + d.neighs(r.Neigh) + ")"
}

func coqCase(c Case, o obs) string {
	d := newDict(c)
	ch := make([]string, len(c.Children))
	for i, x := range c.Children {
		ch[i] = "Ch " + hx.CoqBool(images.IsLayerType(x.MT)) + " " + coqStr(x.Digest) + " " + coqStrs(x.URLs)
	}
	// reference strings of this case and what containerd's parser makes of them
	refs := map[string]bool{c.Ref: true}
	for _, po := range o.probes {
		for _, k := range []string{kRef, kCriRef} {
			if v, ok := po.m[k]; ok {
				refs[v] = true
			}
		}
	}
	rk := make([]string, 0, len(refs))
	for r := range refs {
		rk = append(rk, r)
	}
	sort.Strings(rk)
	var good []string
	for _, r := range rk {
		if sp, ok := parseRefOK(r); ok {
			good = append(good, "("+coqStr(r)+", "+coqStr(specStr(sp))+")")
		}
	}
	ann := "None"
	if !o.handlerErr {
		a := make([]string, len(o.anns))
		for i, m := range o.anns {
			if recorded(c, i) {
				a[i] = "Some " + d.labels(m)
			} else {
				a[i] = "None"
			}
		}
		ann = "(Some " + hx.CoqList(a) + ")"
	}
	ps := make([]string, len(o.probes))
	for i, po := range o.probes {
		ms := make([]string, len(po.p.Muts))
		for j, mu := range po.p.Muts {
			if mu.Op == "del" {
				ms[j] = "MD " + coqKey(mu.Key)
			} else {
				ms[j] = "MSs cs " + coqKey(mu.Key) + " " + d.val(mu.Val)
			}
		}
		// compressed: None = "same as the previous field" (see Model/Labels.v, probe)
		rsvc := "None"
		if !reflect.DeepEqual(po.rdef, po.rsvc) {
			rsvc = "(Some " + d.rd(po.rsvc) + ")"
		}
		mount := "None"
		if !reflect.DeepEqual(po.mount, po.rsvc.Neigh) {
			mount = "(Some " + d.neighs(po.mount) + ")"
		}
		ps[i] = fmt.Sprintf("mkProbe %d %s %s %s %s %s %s", po.p.Layer, hx.CoqList(ms), "("+hx.CoqZ(po.p.Dflt)+")",
			d.rd(po.rdef), rsvc, mount, "("+hx.CoqZ(po.pf)+")")
	}
	pre := "[]"
	anyPre := false
	pres := make([]string, len(c.Children))
	for i, x := range c.Children {
		keys := make([]string, 0, len(x.Ann))
		for k := range x.Ann {
			keys = append(keys, k)
		}
		sort.Strings(keys)
		as := make([]string, len(keys))
		for j, k := range keys {
			as[j] = "A " + coqKey(k) + " " + coqStr(x.Ann[k])
			anyPre = true
		}
		pres[i] = hx.CoqList(as)
	}
	if anyPre {
		pre = hx.CoqList(pres)
	}
	return fmt.Sprintf("let cs := %s in mkCaseS %s %s %s (%s) %s cs %s %s %s %s", hx.CoqList(ch), hx.CoqBool(c.Flavour == "extra"), hx.CoqBool(isManifest(c.MT)),
		coqStr(c.Ref), hx.CoqZ(c.Prefetch), coqStr(c.MDigest), pre, hx.CoqList(good), ann, hx.CoqList(ps))
}

// ---------------------------------------------------------------------------------------------
// generation

const (
	mtConfig = "application/vnd.oci.image.config.v1+json"
	mtHelm   = "application/vnd.cncf.helm.chart.content.v1.tar+gzip" // not a layer type for containerd
)

var layerMTs = []string{
	ocispec.MediaTypeImageLayerGzip,
	ocispec.MediaTypeImageLayer,
	ocispec.MediaTypeImageLayerZstd,
	images.MediaTypeDockerSchema2LayerGzip,
	images.MediaTypeDockerSchema2LayerForeignGzip,
	"application/vnd.oci.image.layer.nondistributable.v1.tar+gzip",
}

var goodRefs = []string{
	"registry.example.com/foo/bar:latest",
	"docker.io/library/ubuntu:22.04",
	"ghcr.io/stargz-containers/python:3.9-esgz",
	"localhost:5000/a/b/c:v1",
	"registry.example.com/app@sha256:0123456789abcdef0123456789abcdef0123456789abcdef0123456789abcdef",
	"example.com//double/slash:tag",
	"example.com/NoTag",
	"10.0.0.1:5000/x:y",
}

var badRefs = []string{
	"",
	"nohost",
	"http://registry.example.com/foo:bar",
	"/only/path:tag",
	"exa mple.com/foo:bar",
	"example.com:port/foo",
	":5000/foo",
}

func hexOf(r *hx.Rng, n int) string { return hex.EncodeToString(r.Bytes(n)) }

func genDigest(r *hx.Rng, alg int) string {
	switch alg {
	case 1:
		return "sha384:" + hexOf(r, 48)
	case 2:
		return "sha512:" + hexOf(r, 64)
	}
	return "sha256:" + hexOf(r, 32)
}

func badDigest(r *hx.Rng) string {
	switch r.Intn(10) {
	case 0:
		return ""
	case 1:
		return "sha256:" + strings.ToUpper(hexOf(r, 32))
	case 2:
		return "sha256:" + hexOf(r, 31)
	case 3:
		return "sha256:" + hexOf(r, 33)
	case 4:
		return "md5:" + hexOf(r, 16)
	case 5:
		return hexOf(r, 32)
	case 6:
		return "sha256:"
	case 7:
		return "sha512:" + hexOf(r, 32)
	case 8:
		return "sha256:" + hexOf(r, 31) + "g0"
	}
	return "sha256-" + hexOf(r, 32)
}

func genURL(r *hx.Rng, long bool) string {
	hosts := []string{"https://mirror.example.com", "http://10.1.2.3:8080", "https://foreign.blob.core.windows.net"}
	u := hosts[r.Intn(len(hosts))] + "/v2/blobs/" + hexOf(r, r.Range(2, 8))
	if long {
		u += "/" + strings.Repeat("p", r.Range(100, 400)) + "?sig=" + hexOf(r, 16)
	}
	return u
}

// URL lists that run into the label size limit (expensive to print: used once per some cases)
func genHugeURLs(r *hx.Rng) []string {
	if r.Chance(1, 4) { // a first URL that can never fit
		return []string{genURL(r, false) + "/" + strings.Repeat("x", r.Range(4000, 4200)), genURL(r, false)}
	}
	n := r.Range(12, 24)
	us := make([]string, n)
	for i := range us {
		us[i] = genURL(r, true)
	}
	return us
}

func genURLs(r *hx.Rng, foreignBias bool) []string {
	x := r.Intn(100)
	switch {
	case x < 50 && !foreignBias:
		return nil
	case x < 55:
		return []string{}
	case x < 58:
		return []string{""}
	case x < 63:
		return []string{genURL(r, false) + "?a=1,b=2"}
	case x < 66:
		return []string{genURL(r, false), "", genURL(r, false)}
	}
	n := r.Range(1, 3)
	us := make([]string, n)
	for i := range us {
		us[i] = genURL(r, false)
	}
	return us
}

// genInjected: annotations a (hostile or merely unusual) manifest puts on a layer descriptor, all inside the
// containerd.io/snapshot/ namespace that containerd hands down to the snapshotter
func genInjected(r *hx.Rng, a map[string]string) map[string]string {
	if a == nil {
		a = map[string]string{}
	}
	for n := r.Range(1, 3); n > 0; n-- {
		switch r.Intn(9) {
		case 0: // a complete, well-formed CRI source
			a[kCriRef] = "registry.other.example/evil/repo:tag"
			a[kCriDigest] = genDigest(r, 0)
		case 1: // an incomplete / malformed one
			if r.Bool() {
				a[kCriRef] = goodRefs[r.Intn(len(goodRefs))]
			} else {
				a[kCriDigest] = badDigest(r)
			}
		case 2:
			a[kRef] = "registry.other.example/evil/repo:tag"
			a[kDigest] = genDigest(r, 0)
		case 3:
			a[kURLs] = "https://injected.example.com/blob"
		case 4:
			a[kURLsPrefix+strconv.Itoa(r.Intn(4))] = "https://injected.example.com/n"
		case 5:
			a[kURLsPrefix+strconv.Itoa(r.Range(40, 99))] = "https://injected.example.com/far"
		case 6:
			a[kPrefetch] = strconv.Itoa(r.Intn(1000))
		case 7:
			a[kLayers] = genDigest(r, 0) + "," + genDigest(r, 0)
			a[kCriLayers] = genDigest(r, 0)
		default:
			a[kCriManifest] = genDigest(r, 0)
		}
	}
	return a
}

func pick(c Case, n int, r *hx.Rng) []int {
	// which children get their annotations printed / probed: all for small manifests; first, last and the region where
	// the layers label stops being truncated for large ones
	if len(c.Children) <= 10 {
		return nil
	}
	set := map[int]bool{0: true, 1: true, 2: true, len(c.Children) - 1: true, len(c.Children) - 2: true}
	for i := 0; i < n; i++ {
		set[r.Intn(len(c.Children))] = true
	}
	out := []int{}
	for k := range set {
		out = append(out, k)
	}
	sort.Ints(out)
	return out
}

func genPrefetch(r *hx.Rng) int64 {
	switch r.Intn(8) {
	case 0:
		return 0
	case 1:
		return -1
	case 2:
		return 9223372036854775807
	case 3:
		return -9223372036854775808
	case 4:
		return int64(r.U64())
	}
	return int64(r.Intn(1 << 30))
}

func gen(r *hx.Rng) Case {
	c := Case{Flavour: "default", MT: ocispec.MediaTypeImageManifest}
	if r.Bool() {
		c.Flavour = "extra"
	}
	switch r.Intn(40) {
	case 0:
		c.MT = ocispec.MediaTypeImageIndex
	case 1:
		c.MT = mtConfig
	case 2, 3, 4, 5, 6, 7, 8, 9, 10, 11, 12:
		c.MT = images.MediaTypeDockerSchema2Manifest
	}
	c.Ref = goodRefs[r.Intn(len(goodRefs))]
	malformed := r.Chance(1, 8)
	if malformed && r.Chance(1, 3) {
		c.Ref = badRefs[r.Intn(len(badRefs))]
	}
	c.Prefetch = genPrefetch(r)
	c.MDigest = genDigest(r, 0)
	nl := 0
	alg := 0
	switch x := r.Intn(100); {
	case x < 4:
		nl = 0
	case x < 74:
		nl = r.Range(1, 5)
	case x < 95:
		nl = r.Range(6, 14)
	case x < 98: // sha512 digests: the layers label overflows after 29 entries
		nl = r.Range(28, 34)
		alg = 2
	default: // sha256: overflow after 56 / 57 entries
		nl = r.Range(55, 60)
	}
	huge := -1
	if r.Chance(1, 20) && nl > 0 {
		huge = r.Intn(nl)
	}
	foreign := r.Chance(1, 4)
	c.Children = append(c.Children, Child{MT: mtConfig, Digest: genDigest(r, 0)})
	var pool []string
	for i := 0; i < nl; i++ {
		ch := Child{MT: layerMTs[r.Intn(len(layerMTs))]}
		a := alg
		if alg == 0 && r.Chance(1, 12) {
			a = r.Intn(3)
		}
		if len(pool) > 0 && r.Chance(1, 6) {
			ch.Digest = pool[r.Intn(len(pool))] // repeated digest
			if r.Bool() {
				// same descriptor repeated: same URLs
				for _, o := range c.Children {
					if o.Digest == ch.Digest {
						ch.URLs = o.URLs
					}
				}
			} else {
				ch.URLs = genURLs(r, foreign)
			}
		} else {
			ch.Digest = genDigest(r, a)
			ch.URLs = genURLs(r, foreign)
		}
		if nl > 20 && r.Chance(4, 5) {
			ch.URLs = nil // keep the big cases small on disk
		}
		if i == huge {
			ch.URLs = genHugeURLs(r)
		}
		pool = append(pool, ch.Digest)
		if malformed && r.Chance(1, 6) {
			ch.Digest = badDigest(r)
		}
		c.Children = append(c.Children, ch)
		if r.Chance(1, 60) {
			// a non-layer blob inside the manifest's layer list (artifact-style manifests)
			c.Children = append(c.Children, Child{MT: mtHelm, Digest: genDigest(r, 0), URLs: []string{genURL(r, false)}})
		}
	}
	// now and then the manifest itself carries containerd.io/snapshot/* annotations on layer descriptors
	if r.Chance(1, 7) && nl > 0 && nl <= 14 {
		for x := r.Range(1, 2); x > 0; x-- {
			i := 1 + r.Intn(len(c.Children)-1)
			c.Children[i].Ann = genInjected(r, c.Children[i].Ann)
		}
	}
	c.Record = pick(c, 3, r)
	// plain probes of every recorded child
	for i := range c.Children {
		if recorded(c, i) {
			c.Probes = append(c.Probes, Probe{Layer: i, Dflt: genPrefetch(r)})
		}
	}
	return c
}

// addMutations needs the labels actually present, so it runs after a first execution
func addMutations(c Case, o obs, r *hx.Rng) Case {
	if o.handlerErr || len(o.anns) == 0 {
		return c
	}
	var cand []int
	for i, a := range o.anns {
		if len(a) > 0 && recorded(c, i) {
			cand = append(cand, i)
		}
	}
	if len(cand) == 0 {
		return c
	}
	n := r.Range(1, 4)
	for x := 0; x < n; x++ {
		li := cand[r.Intn(len(cand))]
		a := o.anns[li]
		keys := make([]string, 0, len(a))
		for k := range a {
			keys = append(keys, k)
		}
		sort.Strings(keys)
		mand := []string{kRef, kDigest, kLayers}
		if c.Flavour == "extra" {
			mand = []string{kCriRef, kCriDigest, kCriLayers}
		}
		p := Probe{Layer: li, Dflt: genPrefetch(r)}
		nm := r.Range(1, 3)
		for y := 0; y < nm; y++ {
			var k string
			if r.Chance(2, 3) {
				k = mand[r.Intn(len(mand))]
			} else {
				k = keys[r.Intn(len(keys))]
			}
			if r.Chance(2, 5) {
				p.Muts = append(p.Muts, Mut{Op: "del", Key: k})
				continue
			}
			var v string
			switch k {
			case kRef, kCriRef:
				if r.Chance(2, 3) {
					v = badRefs[r.Intn(len(badRefs))]
				} else {
					v = goodRefs[r.Intn(len(goodRefs))]
				}
			case kDigest, kCriDigest:
				if r.Chance(2, 3) {
					v = badDigest(r)
				} else {
					v = genDigest(r, r.Intn(3))
				}
			case kLayers, kCriLayers:
				parts := strings.Split(a[k], ",")
				switch r.Intn(6) {
				case 0:
					v = ""
				case 1:
					v = a[k] + ","
				case 2:
					parts[r.Intn(len(parts))] = badDigest(r)
					v = strings.Join(parts, ",")
				case 3:
					i := r.Intn(len(parts))
					parts = append(parts[:i], parts[i+1:]...)
					v = strings.Join(parts, ",")
				case 4:
					parts = append([]string{genDigest(r, 0)}, parts...)
					v = strings.Join(parts, ",")
				default:
					v = "," + a[k]
				}
			case kPrefetch:
				vals := []string{"", "abc", "+5", "-0", "9223372036854775808", "-9223372036854775808", "-9223372036854775809", "007", " 5", "1_000", "0x10", "-", "+", "12a", "99999999999999999999999"}
				v = vals[r.Intn(len(vals))]
			default:
				if r.Bool() {
					v = genURL(r, false) + "," + genURL(r, false)
				} else {
					v = ""
				}
			}
			p.Muts = append(p.Muts, Mut{Op: "set", Key: k, Val: v})
		}
		// sometimes graft the other reader's mandatory labels on top
		if r.Chance(1, 8) {
			p.Muts = append(p.Muts, Mut{Op: "set", Key: kRef, Val: goodRefs[r.Intn(len(goodRefs))]},
				Mut{Op: "set", Key: kDigest, Val: genDigest(r, 0)})
		}
		c.Probes = append(c.Probes, p)
	}
	return c
}

// ---------------------------------------------------------------------------------------------

func plainProbes(n int) []Probe {
	ps := make([]Probe, n)
	for i := range ps {
		ps[i] = Probe{Layer: i, Dflt: 7}
	}
	return ps
}

// boundaryCorpus: deterministic sweep, emitted on every run, of manifests whose size-limited labels land exactly on the
// containerd limit. For every size-limited label kind (urls; urls.<i> with one- and two-digit i; the stargz.layers /
// cri.image-layers digest lists) the joined value is made to hit len(key)+len(value+",") = 4094..4098, both with one long
// item and with many short items followed by one more (so that truncation at an item boundary lands on those lengths),
// for the target layer and for neighbours, with the target's digest repeated further down its own list.
// Strings are built from long single-character runs so that they print run-length encoded.
func boundaryCorpus() []Case {
	lg := ocispec.MediaTypeImageLayerGzip
	fg := images.MediaTypeDockerSchema2LayerForeignGzip
	dg := func(i int) string { return fmt.Sprintf("sha256:%02x", i) + strings.Repeat("a", 62) }
	oneLong := func(n int) []string {
		const pre = "https://b.example.com/"
		return []string{pre + strings.Repeat("x", n-len(pre))}
	}
	many := func(n int) []string {
		// 20 items joined to exactly n bytes, then one more item that can never fit
		var us []string
		total := 0
		for i := 0; i < 20; i++ {
			pre := fmt.Sprintf("https://b.example.com/%02d/", i)
			l := 199
			if i == 19 {
				l = n - total
			}
			us = append(us, pre+strings.Repeat("q", l-len(pre)))
			total += l + 1
		}
		return append(us, "https://extra.example.com/never-fits")
	}
	var cs []Case
	for _, fl := range []string{"default", "extra"} {
		// URL lists: key lengths are 34 (urls), 36 (urls.<d>), 37 (urls.<dd>); value+"," must fit in 4096-key, so the joined
		// length n = 4056..4063 covers key+value+1 = 4094..4098 for all three (and key+value = 4096..4098 for a value that was
		// limited under a shorter key)
		for n := 4056; n <= 4063; n++ {
			for v, mk := range []func(int) []string{oneLong, many} {
				b := mk(n)
				c := Case{Flavour: fl, MT: ocispec.MediaTypeImageManifest, Ref: goodRefs[(n+v)%len(goodRefs)], Prefetch: int64(n), MDigest: dg(200),
					Children: []Child{{MT: mtConfig, Digest: dg(0)}}}
				for i := 1; i <= 14; i++ {
					ch := Child{MT: lg, Digest: dg(i), URLs: []string{fmt.Sprintf("https://s.example.com/%d", i)}}
					switch i {
					case 1, 4, 13: // target of child 1; neighbour under urls.3 and urls.12
						ch.MT, ch.URLs = fg, b
					case 8: // the first layer again: the target appears in its own neighbour list (urls.7)
						ch.MT, ch.Digest, ch.URLs = fg, dg(1), b
					case 6:
						ch.URLs = nil
					}
					c.Children = append(c.Children, ch)
				}
				c.Record = []int{1, 2}
				c.Probes = []Probe{{Layer: 1, Dflt: 1}, {Layer: 2, Dflt: 2}}
				cs = append(cs, c)
			}
		}
		// digest lists: 55 well-formed digests (72 bytes each with the comma) and one entry of tuned length so that
		// key + list hits 4094..4098 (stargz.layers: key 43, trailing comma counted; cri.image-layers: key 39, no trailing
		// comma); the tuned entry cannot be a well-formed digest (all of those have lengths = 7 mod 8), one more layer follows
		lo := 91
		if fl == "extra" {
			lo = 96
		}
		for t := lo; t < lo+5; t++ {
			c := Case{Flavour: fl, MT: ocispec.MediaTypeImageManifest, Ref: goodRefs[t%len(goodRefs)], Prefetch: int64(t), MDigest: dg(200),
				Children: []Child{{MT: mtConfig, Digest: dg(0)}}}
			for i := 1; i <= 55; i++ {
				c.Children = append(c.Children, Child{MT: lg, Digest: dg(i)})
			}
			c.Children = append(c.Children, Child{MT: lg, Digest: "sha256:" + strings.Repeat("b", t-1-7)})
			c.Children = append(c.Children, Child{MT: lg, Digest: dg(57), URLs: []string{"https://s.example.com/57"}})
			c.Record = []int{1, 2}
			c.Probes = []Probe{{Layer: 1, Dflt: 1}, {Layer: 2, Dflt: 2}}
			cs = append(cs, c)
		}
	}
	return cs
}

func corpus() []Case {
	d := func(i int) string {
		s := sha256.Sum256([]byte{byte(i)})
		return "sha256:" + hex.EncodeToString(s[:])
	}
	lg := ocispec.MediaTypeImageLayerGzip
	fg := images.MediaTypeDockerSchema2LayerForeignGzip
	var cs []Case
	for _, fl := range []string{"default", "extra"} {
		// three layers, one foreign with URLs, a repeated digest
		c := Case{Flavour: fl, MT: ocispec.MediaTypeImageManifest, Ref: goodRefs[0], Prefetch: 10485760, MDigest: d(100),
			Children: []Child{{MT: mtConfig, Digest: d(0)}, {MT: lg, Digest: d(1), URLs: []string{"https://a.example.com/1"}},
				{MT: fg, Digest: d(2), URLs: []string{"https://f.example.com/x", "https://g.example.com/y"}},
				{MT: lg, Digest: d(1), URLs: []string{"https://a.example.com/1"}}, {MT: lg, Digest: d(3), URLs: []string{"https://b.example.com/3"}}},
			Probes: plainProbes(5)}
		mref, mdg := kRef, kDigest
		if fl == "extra" {
			mref, mdg = kCriRef, kCriDigest
		}
		c.Probes = append(c.Probes,
			Probe{Layer: 1, Muts: []Mut{{Op: "del", Key: mref}}},
			Probe{Layer: 1, Muts: []Mut{{Op: "del", Key: mdg}}},
			Probe{Layer: 2, Muts: []Mut{{Op: "set", Key: mdg, Val: "sha256:zz"}}},
			Probe{Layer: 2, Muts: []Mut{{Op: "set", Key: mref, Val: "nohost"}}},
			Probe{Layer: 1, Muts: []Mut{{Op: "set", Key: kPrefetch, Val: "abc"}}, Dflt: 99},
			Probe{Layer: 1, Muts: []Mut{{Op: "del", Key: kPrefetch}}, Dflt: 98})
		cs = append(cs, c)
		// F17: layers without URLs, URL with a comma
		cs = append(cs, Case{Flavour: fl, MT: images.MediaTypeDockerSchema2Manifest, Ref: goodRefs[1], Prefetch: -1, MDigest: d(101),
			Children: []Child{{MT: mtConfig, Digest: d(0)}, {MT: lg, Digest: d(1)}, {MT: lg, Digest: d(2), URLs: []string{"https://h.example.com/a,b"}}, {MT: lg, Digest: d(3)}},
			Probes:   plainProbes(4)})
		// a non-layer blob between layers with URLs (index shift in the default flavour)
		cs = append(cs, Case{Flavour: fl, MT: ocispec.MediaTypeImageManifest, Ref: goodRefs[2], Prefetch: 0, MDigest: d(102),
			Children: []Child{{MT: mtConfig, Digest: d(0)}, {MT: lg, Digest: d(1), URLs: []string{"https://u.example.com/1"}}, {MT: mtHelm, Digest: d(9), URLs: []string{"https://u.example.com/helm"}},
				{MT: lg, Digest: d(2), URLs: []string{"https://u.example.com/2"}}, {MT: lg, Digest: d(3), URLs: []string{"https://u.example.com/3"}}},
			Probes: plainProbes(5)})
		// 60 layers: the layers label is truncated for the early layers
		big := Case{Flavour: fl, MT: ocispec.MediaTypeImageManifest, Ref: goodRefs[3], Prefetch: 1, MDigest: d(103), Children: []Child{{MT: mtConfig, Digest: d(0)}}}
		for i := 1; i <= 60; i++ {
			ch := Child{MT: lg, Digest: d(i)}
			if i%20 == 0 {
				ch.URLs = []string{fmt.Sprintf("https://big.example.com/%d", i)}
			}
			big.Children = append(big.Children, ch)
		}
		big.Record = []int{0, 1, 3, 4, 5, 6, 60}
		for _, i := range big.Record {
			big.Probes = append(big.Probes, Probe{Layer: i, Dflt: 3})
		}
		cs = append(cs, big)
		// the manifest itself carries containerd.io/snapshot/* annotations on its layer descriptors
		cs = append(cs, Case{Flavour: fl, MT: ocispec.MediaTypeImageManifest, Ref: goodRefs[0], Prefetch: 4194304, MDigest: d(105),
			Children: []Child{{MT: mtConfig, Digest: d(0)},
				{MT: lg, Digest: d(1), URLs: []string{"https://a.example.com/1"}, Ann: map[string]string{kCriRef: "registry.other.example/evil/repo:tag", kCriDigest: d(66), kRef: "registry.other.example/x:y", kDigest: d(67), kLayers: d(68)}},
				{MT: fg, Digest: d(2), URLs: []string{"https://f.example.com/x"}, Ann: map[string]string{kPrefetch: "17", kURLs: "https://injected.example.com/t", kURLsPrefix + "1": "https://injected.example.com/n", kURLsPrefix + "77": "https://injected.example.com/far"}},
				{MT: lg, Digest: d(3), URLs: []string{"https://b.example.com/3"}, Ann: map[string]string{kCriLayers: d(69), kCriManifest: d(70), kCriDigest: "sha256:zz"}}},
			Probes: plainProbes(4)})
		// not a manifest: nothing is attached
		cs = append(cs, Case{Flavour: fl, MT: ocispec.MediaTypeImageIndex, Ref: goodRefs[0], Prefetch: 5, MDigest: d(104),
			Children: []Child{{MT: ocispec.MediaTypeImageManifest, Digest: d(1)}, {MT: lg, Digest: d(2)}}, Probes: plainProbes(2)})
	}
	return cs
}

// Main is the body of a C20 harness: exec produces the observation of one case (and may normalise the case, e.g. fill in
// digests computed from generated blobs); fixed are the cases emitted on every run; gen draws a random case.
func Main(exec func(Case) (Case, Obs, []string), fixed []Case, gen func(*hx.Rng) Case) {
	ctx := hx.Start()
	emit := func(c Case) {
		c, o, problems := exec(c)
		fails := oracle(c, o)
		term := coqCase(c, o)
		ctx.Count("flavour." + c.Flavour)
		nLayers := 0
		for _, ch := range c.Children {
			if images.IsLayerType(ch.MT) {
				nLayers++
			} else if ch.MT == mtHelm {
				ctx.Count("input.nonlayer-in-layers")
			}
			if !digestOK(ch.Digest) {
				ctx.Count("input.bad-digest")
			}
		}
		ctx.CountN("layers", nLayers)
		// input classes the generator must produce (functions of the input only, never of the implementation's answers)
		dsum, withURLs := 0, 0
		for _, ch := range c.Children {
			if !images.IsLayerType(ch.MT) {
				continue
			}
			dsum += len(ch.Digest) + 1
			usum := 0
			for _, u := range ch.URLs {
				usum += len(u) + 1
			}
			if len(ch.URLs) > 0 {
				withURLs++
			}
			if len(ch.URLs) > 1 && len(kURLs)+usum > 4096 {
				ctx.Count("input.urls-over-limit")
			}
			// a prefix of the URL list whose label lands within 2 bytes of the limit under one of the urls keys
			acc := 0
			for _, u := range ch.URLs {
				acc += len(u) + 1
				for _, kl := range []int{len(kURLs), len(kURLsPrefix) + 1, len(kURLsPrefix) + 2} {
					if d := kl + acc - 4096; d >= -2 && d <= 2 {
						ctx.Count("input.urls-at-limit")
					}
				}
			}
		}
		if isManifest(c.MT) && len(kLayers)+dsum > 4096 {
			ctx.Count("input.layers-over-limit")
		}
		acc := 0
		for _, ch := range c.Children {
			if images.IsLayerType(ch.MT) {
				acc += len(ch.Digest) + 1
				if d := len(kLayers) + acc - 4096; d >= -2 && d <= 2 {
					ctx.Count("input.layers-at-limit")
				}
				if d := len(kCriLayers) + acc - 1 - 4096; d >= -2 && d <= 2 {
					ctx.Count("input.layers-at-limit")
				}
			}
		}
		if withURLs >= 2 {
			ctx.Count("input.several-layers-with-urls")
		}
		if _, ok := parseRefOK(c.Ref); !ok {
			ctx.Count("input.bad-ref")
		}
		for _, ch := range c.Children {
			if len(ch.Ann) > 0 {
				ctx.Count("input.manifest-annotations")
				break
			}
		}
		if !isManifest(c.MT) {
			ctx.Count("input.not-manifest")
		}
		if o.handlerErr {
			ctx.Count("result.handler-error")
		}
		accepted, withNeigh := 0, 0
		for _, po := range o.probes {
			if len(po.p.Muts) > 0 {
				ctx.Count("probe.mutated")
				if po.rsvc.OK {
					ctx.Count("probe.mutated.accepted")
				} else {
					ctx.Count("probe.mutated.rejected")
				}
				continue
			}
			ctx.Count("probe.plain")
			if po.rsvc.OK {
				accepted++
				if len(po.rsvc.Neigh) > 0 {
					withNeigh++
				}
				for _, n := range po.rsvc.Neigh {
					if len(n.U) > 0 && !strsEq(n.U, []string{""}) {
						ctx.Count("result.neighbour-with-urls")
						break
					}
				}
				// truncation of the layers label observed?
				rest := 0
				for j := po.p.Layer; j < len(c.Children); j++ {
					if images.IsLayerType(c.Children[j].MT) && c.Children[j].Digest != c.Children[po.p.Layer].Digest {
						rest++
					}
				}
				if len(po.rsvc.Neigh) < rest {
					ctx.Count("result.layers-truncated")
				}
				if own := c.Children[po.p.Layer].URLs; len(own) > 1 && len(po.rsvc.URLs) < len(own) {
					ctx.Count("result.urls-truncated")
				}
			} else if isManifest(c.MT) && images.IsLayerType(c.Children[po.p.Layer].MT) {
				ctx.Count("result.plain-rejected")
			}
		}
		seen := map[string]bool{}
		for _, f := range fails {
			if f.sig != "" && !seen[f.sig] {
				seen[f.sig] = true
				ctx.Count("finding." + f.sig)
			}
		}
		nontrivial := nLayers >= 2 && withNeigh > 0
		h := sha256.Sum256([]byte(term))
		id := ctx.Case(term, c, hex.EncodeToString(h[:8]), nontrivial)
		for _, p := range problems {
			ctx.Violation(id, p, nil)
		}
		// one report per signature and per violation text keeps stats.json small
		rep := map[string]bool{}
		for _, f := range fails {
			key := f.sig + "|" + f.what
			if rep[key] {
				continue
			}
			rep[key] = true
			if f.sig != "" {
				ctx.Finding(id, f.sig, f.what, f.detail)
			} else {
				ctx.Violation(id, f.what, f.detail)
			}
		}
	}
	if ctx.Replay != "" {
		var c Case
		ctx.LoadReplay(&c)
		emit(c)
		ctx.Finish()
		return
	}
	cs := fixed
	for _, c := range cs {
		emit(c)
	}
	r := hx.NewRng(ctx.Seed)
	for i := len(cs); i < ctx.N; i++ {
		cr := r.Fork()
		c := gen(cr)
		c, o, _ := exec(c)
		c = addMutations(c, o, cr)
		emit(c)
	}
	ctx.Finish()
}

// Gen draws a random case for the handler-level harness; Corpus / BoundaryCorpus are its fixed cases.
func Gen(r *hx.Rng) Case                       { return gen(r) }
func Corpus() []Case                           { return corpus() }
func BoundaryCorpus() []Case                   { return boundaryCorpus() }
func GoodRefs() []string                       { return goodRefs }
func LayerMediaTypes() []string                { return layerMTs }
func GenDigest(r *hx.Rng, alg int) string      { return genDigest(r, alg) }
func GenURLs(r *hx.Rng, foreign bool) []string { return genURLs(r, foreign) }
func GenHugeURLs(r *hx.Rng) []string           { return genHugeURLs(r) }
func GenPrefetch(r *hx.Rng) int64              { return genPrefetch(r) }
func PlainProbes(n int) []Probe                { return plainProbes(n) }

const ConfigMediaType = mtConfig
