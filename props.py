"""Per-property configuration of the check driver."""

COMMON_TRUSTED = [
    "Coq 8.16.1 kernel (coqc), including the vm_compute evaluator; native_compute is not used",
    "Print Assumptions output of every property theorem is parsed on each run: must be 'Closed under the global context'",
    "tools/genconsts (Go constant translator regenerating coq/Gen/Consts.v from /repo)",
    "the Go correspondence harness + generator for this property (differential test: bounded by generator quality)",
    "no extraction: the model is evaluated inside Coq (vm_compute) on the observed cases",
]

PROPS = {}

ALL_IDS = ["C%02d" % i for i in range(1, 21)]

import glob as _glob, os as _os
for _f in sorted(_glob.glob(_os.path.join(_os.path.dirname(_os.path.abspath(__file__)), "props.d", "C*.py"))):
    exec(compile(open(_f).read(), _f, "exec"))

# properties not (yet) claimed: filled in at the bottom so that MANIFEST.json is always valid
# ready.txt: ids whose check has been integrated and verified green on the unchanged tree by the lead
READY = set(open(_os.path.join(_os.path.dirname(_os.path.abspath(__file__)), "ready.txt")).read().split())
NOT_APPLICABLE = [dict(property_id=i, reason="not yet covered by a check in this revision of /verif (work in progress; see DESIGN.md)")
                  for i in ALL_IDS if i not in PROPS or i not in READY]
