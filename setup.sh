#!/bin/sh
# Builds the framework from files on disk only (offline): Coq development, translator, harness binaries.
set -e
cd "$(dirname "$0")"
export GOFLAGS=-mod=mod GOPROXY=off GOSUMDB=off GOTOOLCHAIN=local
mkdir -p .build/bin
python3 -c "import importlib.machinery,importlib.util,sys; l=importlib.machinery.SourceFileLoader('chk','check'); m=importlib.util.module_from_spec(importlib.util.spec_from_loader('chk',l)); l.exec_module(m); print(m.gen_consts()); m.coq_makefile()"
( cd coq && timeout 3000 make -k -j16 >/dev/null 2>&1 ) || echo "setup: some Coq files did not build (the checks rebuild what they need and report it)"
python3 - <<'PY'
import subprocess, sys, os, shutil
sys.path.insert(0, os.getcwd())
from props import PROPS
seen = set()
for pid, c in PROPS.items():
    for h in c["harnesses"]:
        key = (h.get("mod", "root"), h["cmd"])
        if key in seen:
            continue
        seen.add(key)
        mod = os.path.join("harness", key[0])
        shutil.copyfile({"root": "/repo/go.sum", "cmdmod": "/repo/cmd/go.sum"}[key[0]], os.path.join(mod, "go.sum"))
        r = subprocess.run(["go1.26", "build", "-tags", "verif", "-o", os.path.abspath(".build/bin/" + key[1]), "./cmd/" + key[1]], cwd=mod)
        if r.returncode != 0:
            print("setup: harness %s did not build (its check will report it)" % key[1])
PY
echo setup ok
